"""C20 - real-space symmetrisation yields a symmetric, Hermitian model (META).

A random Hermitian model (Ham, AA, optionally BB, CC; SS with spin-orbit coupling) whose Wannier functions sit (approximately) on the
atoms of a crystal structure is pushed through System_R.symmetrize(proj, positions, atom_name, soc, magmom).  Afterwards:
  * at random k and for every operation g of the resulting group: E(gk) = E(k); Berry curvature (internal and external terms) and
    spin at gk equal the transformed values at k (tensor action written in the harness);
  * every Hermitian-family matrix obeys X(-R) = X(R)^dagger (harness index, not conj_XX_R);
  * every space-group operation maps the set of Wannier centres onto itself (mod lattice);
  * symmetrising the result again changes neither the matrices, nor the R set, nor the centres.
Only consistent projection sets are generated: full shells s, p, d on every site, and sp3 on tetrahedral sites.
"""
import os
import sys

sys.path.insert(0, os.path.dirname(os.path.dirname(os.path.abspath(__file__))))
from vlib import env, harness, gen_systems, gen_groups, monitors  # noqa: E402
import numpy as np  # noqa: E402

PROP = "C20"
NORB = dict(s=1, p=3, d=5, sp3=4)


def setup(ctx):
    env.import_wb()
    return {}


def random_subgroup(rng, sg):
    """indices of the closure of one or two random operations of an irrep SpaceGroup (rotation, translation mod 1, time reversal)"""
    ops = [(np.array(o.rotation, dtype=int), np.array(o.translation, dtype=float), bool(o.time_reversal)) for o in sg.symmetries]

    def find(W, t, tr):
        for i, (W2, t2, tr2) in enumerate(ops):
            d = t - t2
            if tr == tr2 and np.array_equal(W, W2) and np.abs(d - np.round(d)).max() < 1e-6:
                return i
        return None
    ident = find(np.eye(3, dtype=int), np.zeros(3), False)
    if ident is None:
        return None
    sel = {ident} | {int(i) for i in rng.integers(len(ops), size=int(rng.integers(1, 3)))}
    while True:
        new = set()
        for i in sel:
            for j in sel:
                W = ops[i][0] @ ops[j][0]
                t = ops[i][0] @ ops[j][1] + ops[i][1]
                k = find(W, t, ops[i][2] != ops[j][2])
                if k is None:
                    return None
                if k not in sel:
                    new.add(k)
        if not new:
            break
        sel |= new
    return sorted(sel)


def matrices_by_R(system):
    iR = system.rvec.iRvec
    return {key: {tuple(R): X[i] for i, R in enumerate(iR.tolist())} for key, X in system._XX_R.items()}


def case(ctx, rng, idx, state):
    import wannierberri as wb

    names = [t["name"] for t in gen_groups.STRUCTURES]
    for _ in range(100):
        sname = names[int(rng.integers(len(names)))]
        struct = gen_groups.structure(sname, rng)
        if len(struct["positions"]) <= 4:
            break
    pos = np.array(struct["positions"], dtype=float) % 1.0
    atom_names = list(struct["atom_names"])
    species = []
    for n in atom_names:
        if n not in species:
            species.append(n)
    mag = struct.get("magmoms")
    soc = bool(mag is not None or rng.random() < 0.5)
    # orbitals per species (total size limited)
    for _ in range(50):
        orbs = {}
        for sp in species:
            choices = ["s", "p", "d"] if rng.random() < 0.9 else ["s"]
            if sname in ("F-43m", "Fd-3m"):
                choices = choices + ["sp3"]
            orbs[sp] = choices[int(rng.integers(len(choices)))]
        nw = sum(NORB[orbs[n]] for n in atom_names) * (2 if soc else 1)
        if nw <= (12 if not ctx.thorough else 16):
            break
    else:
        raise harness.Skip("projection set too large")
    proj = [f"{sp}:{orbs[sp]}" for sp in species]
    # Wannier functions in the order symmetrize() expects: per projection, per atom of that species, per orbital, spin interlaced
    cred = []
    for sp in species:
        for ia, n in enumerate(atom_names):
            if n == sp:
                cred += [pos[ia]] * (NORB[orbs[sp]] * (2 if soc else 1))
    cred = np.array(cred)
    lattice = np.array(struct["lattice"], dtype=float)
    noise = rng.normal(size=cred.shape) * (0.01 if rng.random() < 0.5 else 0.0)
    keys = ["Ham", "AA"] + (["SS"] if soc else []) + (["BB", "CC"] if rng.random() < 0.3 else [])
    radius = rng.uniform(1.0, 1.5)
    iR = gen_systems.symmetric_R_set(rng, radius=radius)
    mats = gen_systems.random_matrices(rng, iR, lattice, nw, keys=keys)
    system = gen_systems.make_system(lattice, iR, mats, cred + noise, spinor=soc)
    wit = dict(structure=sname, proj=proj, soc=soc, noisy_start=bool(np.abs(noise).max() > 0), magnetic=mag is not None, num_wann=nw, keys=keys, nR_before=len(iR), params=struct.get("params"))
    kw = dict(proj=proj, positions=pos, atom_name=atom_names, soc=soc, magmom=None if mag is None else np.array(mag), reorder_back=True)
    if rng.random() < 0.5:
        monitors.warm_caches(system)   # a system that has been used before it is symmetrised
    # every third case symmetrises over a proper subgroup through the documented symmetrize2(symmetrizer, use_symmetries_index=...):
    # the symmetrizer comes from a throw-away copy, the subgroup is the closure of one or two random operations
    sub_index = None
    if idx % 3 == 2:
        import copy
        probe = copy.deepcopy(system)
        with env.quiet():
            sym_probe = probe.symmetrize(**kw)
        if sym_probe is not None:
            sub_index = random_subgroup(rng, sym_probe.spacegroup)
            if sub_index is not None and len(sub_index) == len(sym_probe.spacegroup.symmetries):
                sub_index = None
    if sub_index is not None:
        def do_symmetrize():
            system.symmetrize2(sym_probe, use_symmetries_index=list(sub_index))
            return sym_probe
        wit["subgroup"] = [int(i) for i in sub_index]
        ctx.count("subgroup_cases")
    else:
        def do_symmetrize():
            return system.symmetrize(**kw)
    symmetrizer = do_symmetrize()
    monitors.assert_no_stale_caches(ctx, system, "symmetrize", wit)
    sg_ops = None
    try:
        sg = symmetrizer.spacegroup if symmetrizer is not None else None
        if sg is not None:
            sg_ops = [(np.array(op.rotation), np.array(op.translation)) for i, op in enumerate(sg.symmetries) if sub_index is None or i in sub_index]
    except Exception:
        sg_ops = None
    pg = system.pointgroup
    wit["group_order"] = pg.size
    wit["nR_after"] = system.rvec.nRvec
    # ---- (1) symmetry of energies / Berry curvature / spin at random k, tensor action written here -----------------------------------
    noisy = bool(np.abs(noise).max() > 0)
    mixing = any(orbs[sp] in ("p", "d", "sp3") for sp in species)
    # the property speaks about the (total) Berry curvature; its split into internal and external terms is symmetric term by term only when
    # the centres of the individual Wannier functions are symmetric themselves (exact starting centres), see the known finding on centres
    quantities = ["energy", "berry_curvature"] + ([] if noisy else ["berry_curvature_internal_terms", "berry_curvature_external_terms"]) \
        + (["spin"] if soc else [])
    recip = system.recip_lattice
    for ik in range(3 if not ctx.thorough else 6):
        k = rng.uniform(0, 1, 3)
        r0 = wb.evaluate_k(system, k=tuple(k), quantities=quantities, return_single_as_dict=True)
        E0 = np.asarray(r0["energy"])
        gaps0 = np.diff(np.sort(E0))
        if gaps0.size and np.any((gaps0 > 1e-7) & (gaps0 < 1e-2)):
            ctx.count("skipped_tie_near_degenerate_k")   # exactly degenerate multiplets are fine: evaluate_k averages over them
            continue
        for s in pg.symmetries:
            sign = (-1 if s.TR else 1) * (-1 if s.Inv else 1)
            A = sign * (recip @ np.asarray(s.R).T @ np.linalg.inv(recip))
            kg = k @ A
            r1 = wb.evaluate_k(system, k=tuple(kg), quantities=quantities, return_single_as_dict=True)
            ctx.close("E(gk)!=E(k)", r1["energy"], E0, rtol=1e-9, scale=np.abs(E0).max(), what="energy", witness=wit)
            for q in quantities[1:]:
                # axial vectors: rotate with the proper part; odd under time reversal; even under inversion
                expected = (np.asarray(r0[q]) @ np.asarray(s.R).T) * (-1 if s.TR else 1)
                sc = max(np.abs(r0[q]).max(), 1e-3 * np.abs(E0).max())
                mech = f"{q}(gk)!=g.{q}(k)"
                if q == "berry_curvature" and noisy and mixing:
                    mech += "[non-symmetric_start,shell_mixed_by_site_group]"   # known finding, same root cause as the centres
                ctx.close(mech, r1[q], expected, rtol=1e-7, scale=sc, what=q, witness=wit)
        ctx.count("k_points_checked")
    # ---- (2) Hermiticity ---------------------------------------------------------------------------------------------------------------
    byR = matrices_by_R(system)
    for key in keys:
        if key in gen_systems.NON_HERMITIAN:
            continue
        scale = max(np.abs(x).max() for x in byR[key].values())
        worst = 0.0
        for R, X in byR[key].items():
            mR = tuple(-x for x in R)
            ctx.ev()
            if mR not in byR[key]:
                if np.abs(X).max() > 1e-10 * scale:
                    ctx.violation("R_set_not_closed_under_-R_after_symmetrize", f"{key} R={R}", wit)
                continue
            worst = max(worst, np.abs(X - np.conj(np.swapaxes(byR[key][mR], 0, 1))).max())
        ctx.close("X(-R)!=X(R)^dagger_after_symmetrize", worst, 0.0, atol=1e-10 * scale, rtol=0, what=f"hermiticity {key}", witness=wit)
    # ---- (3) centres map onto each other ---------------------------------------------------------------------------------------------
    # centres of the Wannier functions of one atom are averaged (the trace of the position operator over the shell is basis independent:
    # orbitals of a shell that the site group mixes, e.g. px/py under C3, need not have individually symmetric centres)
    cr_all = system.wannier_centers_red
    nper = [NORB[orbs[sp]] * (2 if soc else 1) for sp in species for n in atom_names if n == sp]
    starts = np.concatenate([[0], np.cumsum(nper)])
    cr = np.array([cr_all[starts[i]:starts[i + 1]].mean(axis=0) for i in range(len(nper))])
    if sg_ops is not None:
        for W, t in sg_ops:
            img = cr @ W.T + t[None, :]
            for c in img:
                d = cr - c[None, :]
                ctx.ev()
                if np.abs(d - np.round(d)).max(axis=1).min() > 1e-6:
                    ctx.violation("wannier_centres_not_mapped_onto_each_other", f"image {c} of a (site-averaged) centre is not a centre", wit)
                    break
        ctx.count("centre_maps_checked")
    # centres must sit on the atoms (the start was at most 0.01 Angstrom-ish off)
    # ---- (4) idempotence -------------------------------------------------------------------------------------------------------------
    before = matrices_by_R(system)
    cbefore = system.wannier_centers_cart.copy()
    do_symmetrize()
    after = matrices_by_R(system)
    for key in keys:
        scale = max(np.abs(x).max() for x in before[key].values())
        worst = 0.0
        for R in set(before[key]) | set(after[key]):
            a = after[key].get(R)
            b = before[key].get(R)
            if a is None or b is None:
                x = a if b is None else b
                worst = max(worst, np.abs(x).max())   # an R present on one side only must carry (numerically) nothing
            else:
                worst = max(worst, np.abs(a - b).max())
        ctx.close("symmetrize_is_not_idempotent", worst, 0.0, atol=1e-9 * scale, rtol=0, what=f"second symmetrisation changed {key}", witness=wit)
    mixing = any(orbs[sp] in ("p", "d", "sp3") for sp in species)
    mech = "symmetrize_is_not_idempotent:centres"
    if noisy and mixing:
        # known finding (KNOWN_FINDINGS.txt): the centres are averaged with the weights |D_ij(g)|^2, which is not a projection when the site
        # group mixes the orbitals of a shell; visible only when the starting centres are not symmetric already
        mech = "symmetrize_is_not_idempotent:centres[non-symmetric_start,shell_mixed_by_site_group]"
    ctx.close(mech, system.wannier_centers_cart, cbefore, atol=1e-9, rtol=0, what="centres", witness=wit)
    ctx.count("noisy_start_cases", int(noisy))
    ctx.nontrivial((sname, tuple(proj), soc, mag is not None, tuple(keys)))
    ctx.count(f"group_{'large' if pg.size >= 16 else 'small'}")
    ctx.count("magnetic_cases", int(mag is not None))
    ctx.count("soc_cases", int(soc))
    ctx.sample(wit)


if __name__ == "__main__":
    harness.main(
        PROP, "exploration", case, setup_fn=setup,
        tiers=dict(quick=dict(cases=32, shards=8, time=900), thorough=dict(cases=480, shards=16, time=3000)),
        rule="24 crystal-structure templates with <=4 atoms (incl. magnetic ones), projections s/p/d per species (sp3 on tetrahedral sites), with and "
             "without SOC, random starting matrices (Ham, AA, SS, optionally BB, CC) and slightly displaced starting centres; distinct = (structure, "
             "projections, soc, magnetic, matrices)",
        assumptions=["space group from irrep/spglib through the code's own symmetrize()", "tensor action on axial vectors written in the harness",
                     "only consistent projection sets (full shells; sp3 on tetrahedral sites)"],
        required_counters=("subgroup_cases", "k_points_checked", "centre_maps_checked", "group_large", "group_small", "magnetic_cases", "soc_cases"),
    )
