"""C20 - real-space symmetrisation yields a symmetric, Hermitian model (META).

A random Hermitian model (Ham, AA, optionally BB, CC; SS with spin-orbit coupling) whose Wannier functions sit (approximately) on the
atoms of a crystal structure is pushed through System_R.symmetrize(proj, positions, atom_name, soc, magmom).  Afterwards:
  * at random k and for every operation g of the resulting group: E(gk) = E(k); Berry curvature (internal and external terms) and
    spin at gk equal the transformed values at k (tensor action written in the harness);
  * every Hermitian-family matrix obeys X(-R) = X(R)^dagger (harness index, not conj_XX_R);
  * every space-group operation maps the set of Wannier centres onto itself (mod lattice);
  * symmetrising the result again changes neither the matrices, nor the R set, nor the centres.
Only consistent projection sets are generated: full shells s, p, d on every site, and sp3 on tetrahedral sites.
"""
import os
import sys

sys.path.insert(0, os.path.dirname(os.path.dirname(os.path.abspath(__file__))))
from vlib import env, harness, gen_systems, gen_groups, monitors  # noqa: E402
import numpy as np  # noqa: E402

PROP = "C20"
NORB = dict(s=1, p=3, d=5, sp3=4)


def setup(ctx):
    env.import_wb()
    return {}


def random_subgroup(rng, sg):
    """indices of the closure of one or two random operations of an irrep SpaceGroup (rotation, translation mod 1, time reversal)"""
    ops = [(np.array(o.rotation, dtype=int), np.array(o.translation, dtype=float), bool(o.time_reversal)) for o in sg.symmetries]

    def find(W, t, tr):
        for i, (W2, t2, tr2) in enumerate(ops):
            d = t - t2
            if tr == tr2 and np.array_equal(W, W2) and np.abs(d - np.round(d)).max() < 1e-6:
                return i
        return None
    ident = find(np.eye(3, dtype=int), np.zeros(3), False)
    if ident is None:
        return None
    sel = {ident} | {int(i) for i in rng.integers(len(ops), size=int(rng.integers(1, 3)))}
    while True:
        new = set()
        for i in sel:
            for j in sel:
                W = ops[i][0] @ ops[j][0]
                t = ops[i][0] @ ops[j][1] + ops[i][1]
                k = find(W, t, ops[i][2] != ops[j][2])
                if k is None:
                    return None
                if k not in sel:
                    new.add(k)
        if not new:
            break
        sel |= new
    return sorted(sel)


def matrices_by_R(system):
    iR = system.rvec.iRvec
    return {key: {tuple(R): X[i] for i, R in enumerate(iR.tolist())} for key, X in system._XX_R.items()}


PENDING = os.environ.get("VERIF_C20_PENDING", "") == "1"
SHELLS = {"s": ("s",), "p": ("p",), "d": ("d",), "sp3": ("sp3",), "s+p": ("s", "p"), "s+d": ("s", "d"), "p+d": ("p", "d")}


def spaced(rng, species, orbital):
    """the projection string 'X:orb', sometimes with blanks around the separator and at the ends (the documented parser strips them)"""
    if rng.random() < 0.25:
        b = [" " * int(rng.integers(0, 3)) for _ in range(4)]
        return f"{b[0]}{species}{b[1]}:{b[2]}{orbital}{b[3]}"
    return f"{species}:{orbital}"


def as_form(rng, x, kind):
    """the same argument value in another container form: list / tuple / ndarray"""
    form = ("list", "tuple", "array")[int(rng.integers(3))]
    if kind == "positions":
        a = np.array(x, dtype=float)
        return (a.tolist() if form == "list" else tuple(tuple(r) for r in a.tolist()) if form == "tuple" else a), form
    if kind == "names":
        return (list(x) if form == "list" else tuple(x) if form == "tuple" else np.array(list(x))), form
    raise ValueError(kind)


def npz_roundtrip(system):
    import tempfile
    import shutil
    from wannierberri.system.system_R import System_R
    d = tempfile.mkdtemp(prefix="c20npz", dir="/tmp")
    try:
        with env.quiet():
            system.to_npz(os.path.join(d, "s"))
            return System_R.from_npz(os.path.join(d, "s"))
    finally:
        shutil.rmtree(d, ignore_errors=True)


def block_maxima(system, keys, slices):
    """{key: array[iR, block_i, block_j] of max |X| over the block}: the granularity at which the documented cutoff acts"""
    out = {}
    for key in keys:
        X = np.abs(system._XX_R[key])
        X = X.reshape(X.shape[:3] + (-1,)).max(axis=-1)
        out[key] = np.array([[[X[iR, si, sj].max() for sj in slices] for si in slices] for iR in range(X.shape[0])])
    return out


def truncate_blocks(system, cuts, slices):
    """harness-side truncation: zero every (R, block_i, block_j) of matrix `key` none of whose elements exceeds cuts[key]"""
    dropped = 0
    for key, c in cuts.items():
        X = system._XX_R[key]
        for iR in range(X.shape[0]):
            for si in slices:
                for sj in slices:
                    if not np.any(np.abs(X[iR, si, sj]) > c):
                        X[iR, si, sj] = 0
                        dropped += 1
    return dropped


def pick_cutoff(rng, values):
    """a cutoff strictly between two neighbouring block maxima (tie guard: relative distance > 1e-4 to both), in the lower 60 %"""
    v = np.unique(np.asarray(values, dtype=float))
    v = v[v > 0]
    if len(v) < 4:
        return None
    for _ in range(20):
        i = int(rng.integers(0, max(1, int(0.6 * len(v)))))
        if i + 1 < len(v) and v[i + 1] > v[i] * (1 + 1e-3):
            return float(np.sqrt(v[i] * v[i + 1]))
    return None


def case(ctx, rng, idx, state):
    import copy
    import wannierberri as wb

    names = [t["name"] for t in gen_groups.STRUCTURES]
    for _ in range(100):
        sname = names[int(rng.integers(len(names)))]
        struct = gen_groups.structure(sname, rng)
        if len(struct["positions"]) <= 4:
            break
    pos = np.array(struct["positions"], dtype=float) % 1.0
    atom_names = list(struct["atom_names"])
    mag = struct.get("magmoms")
    # --- the same crystal with its atoms listed in another order (equal as a set, ordered differently)
    atoms_permuted = False
    will_merge = bool(len(set(atom_names)) > 1 and rng.random() < 0.25)
    if len(atom_names) > 1 and rng.random() < (0.7 if will_merge else 0.3):
        perm = rng.permutation(len(atom_names))
        atoms_permuted = not np.array_equal(perm, np.arange(len(perm)))
        pos = pos[perm]
        atom_names = [atom_names[i] for i in perm]
        mag = None if mag is None else np.array(mag)[perm]
    # --- two species of the template given one name: atoms of one name on different Wyckoff positions (documented, with a warning);
    # the crystal may get a higher symmetry or a non-primitive cell: the group is always the one the code finds
    merged = False
    if will_merge:
        sp_all = sorted(set(atom_names))
        a, b = rng.choice(len(sp_all), size=2, replace=False)
        atom_names = [sp_all[a] if n == sp_all[b] else n for n in atom_names]
        merged = True
    species = []
    for n in atom_names:
        if n not in species:
            species.append(n)
    soc = bool(mag is not None or rng.random() < 0.5)
    doubled = bool(soc and rng.random() < 0.2)     # a spinless model made spinful by System_R.double_spin() before it is symmetrised
    # orbitals per species (total size limited): one shell, or two shells given as separate projections or combined with ';'
    for _ in range(50):
        orbs = {}
        for sp in species:
            choices = ["s", "p", "d"] if rng.random() < 0.9 else ["s"]
            if rng.random() < 0.3:
                choices = choices + ["s+p", "s+d", "p+d"]
            if sname in ("F-43m", "Fd-3m"):
                choices = choices + ["sp3"]
            orbs[sp] = choices[int(rng.integers(len(choices)))]
        nw = sum(NORB[o] for n in atom_names for o in SHELLS[orbs[n]]) * (2 if soc else 1)
        if nw <= (12 if not ctx.thorough else 16):
            break
    else:
        raise harness.Skip("projection set too large")
    # projection entries (species, orbital string, orbitals per site)
    entries = []
    proj_form = {}
    for sp in species:
        shells = SHELLS[orbs[sp]]
        if len(shells) == 2 and rng.random() < 0.5:
            entries.append((sp, ";".join(shells), sum(NORB[o] for o in shells)))
            proj_form[sp] = "combined"
        else:
            entries += [(sp, o, NORB[o]) for o in shells]
            proj_form[sp] = "separate" if len(shells) == 2 else "single"
    if len(entries) > 1 and rng.random() < 0.3:
        entries = [entries[i] for i in rng.permutation(len(entries))]     # projections of one species need not be adjacent
    proj = [spaced(rng, sp, o) for sp, o, _ in entries]
    multi_shell = any(len(SHELLS[orbs[sp]]) == 2 for sp in species)
    # Wannier functions in the order symmetrize() expects: per projection, per atom of that species, per orbital, spin interlaced
    spin_factor = 2 if soc else 1
    cred = []
    nper = []
    for sp, o, n in entries:
        for ia, nm in enumerate(atom_names):
            if nm == sp:
                cred += [pos[ia]] * (n * spin_factor)
                nper.append(n * spin_factor)
    cred = np.array(cred)
    assert len(cred) == nw
    starts = np.concatenate([[0], np.cumsum(nper)])
    slices = [slice(int(starts[i]), int(starts[i + 1])) for i in range(len(nper))]
    lattice = np.array(struct["lattice"], dtype=float)
    noise = rng.normal(size=cred.shape) * (0.01 if rng.random() < 0.5 else 0.0)
    keys = ["Ham", "AA"] + (["SS"] if soc and not doubled else []) + (["BB", "CC"] if rng.random() < 0.3 else [])
    radius = rng.uniform(1.0, 1.5)
    iR = gen_systems.symmetric_R_set(rng, radius=radius)
    if doubled:
        mats = gen_systems.random_matrices(rng, iR, lattice, nw // 2, keys=keys)
        system = gen_systems.make_system(lattice, iR, mats, (cred + noise)[::2], spinor=False)
        system.double_spin()
        ctx.count("double_spin_before")
    else:
        mats = gen_systems.random_matrices(rng, iR, lattice, nw, keys=keys)
        system = gen_systems.make_system(lattice, iR, mats, cred + noise, spinor=soc)
    # --- history before the operation: rvec.copy(), do_ws_dist, npz round trip
    history = "as_built"
    if rng.random() < 0.35:
        system, history = gen_systems.history_variant(rng, system, workdir="/tmp")
        ctx.count(f"history_before:{history}")
    pos_arg, pos_form = as_form(rng, pos, "positions")
    names_arg, names_form = as_form(rng, atom_names, "names")
    reorder_back = bool(rng.random() < 0.6)
    silent = (None, True, False)[int(rng.integers(3))] if rng.random() < 0.3 else None
    wit = dict(structure=sname, proj=proj, soc=soc, noisy_start=bool(np.abs(noise).max() > 0), magnetic=mag is not None, num_wann=nw, keys=keys,
               nR_before=len(iR), params=struct.get("params"), atom_names=list(atom_names), positions=pos.tolist(), merged_species=merged,
               atoms_permuted=atoms_permuted, double_spin=doubled, history=history, reorder_back=reorder_back, silent=silent,
               forms=(pos_form, names_form))
    kw = dict(proj=proj if rng.random() < 0.7 else tuple(proj), positions=pos_arg, atom_name=names_arg, soc=soc,
              magmom=None if mag is None else (np.array(mag) if rng.random() < 0.5 else np.array(mag).tolist()), reorder_back=reorder_back)
    if silent is not None:
        kw["silent"] = silent
    if rng.random() < 0.5:
        monitors.warm_caches(system)   # a system that has been used before it is symmetrised
    # every third case symmetrises over a proper subgroup through the documented symmetrize2(symmetrizer, use_symmetries_index=...):
    # the symmetrizer comes from a throw-away copy, the subgroup is the closure of one or two random operations;
    # cases with idx % 4 == 1 use the documented cutoff / cutoff_dict of symmetrize2 (possibly together with a subgroup)
    sub_index = None
    sub_arg = None
    cut_kw = None
    want_sub = idx % 3 == 2
    want_cut = idx % 4 == 1
    sym_probe = None
    if want_sub or want_cut:
        probe = copy.deepcopy(system)
        with env.quiet():
            sym_probe = probe.symmetrize(**dict(kw, reorder_back=True))
    if sym_probe is not None and want_sub:
        sub_index = random_subgroup(rng, sym_probe.spacegroup)
        if sub_index is not None and len(sub_index) == len(sym_probe.spacegroup.symmetries):
            sub_index = None
        if sub_index is not None:
            # the index list in another container form / order (equal as a set)
            sub_arg = [int(i) for i in sub_index]
            form = int(rng.integers(4))
            if form == 1:
                sub_arg = tuple(sub_arg)
            elif form == 2:
                sub_arg = np.array(sub_arg)
            elif form == 3:
                sub_arg = [sub_arg[i] for i in rng.permutation(len(sub_arg))]
            wit["subgroup_form"] = ("list", "tuple", "array", "shuffled list")[form]
    if sym_probe is not None and want_cut:
        bm = block_maxima(system, keys, slices)
        modes = ["dict_subset", "scalar_and_dict_keep", "scalar", "dict_all"]
        mode = modes[int(rng.integers(len(modes)))]
        if mode == "dict_subset":
            nsub = int(rng.integers(1, len(keys)))
            subset = [keys[i] for i in rng.permutation(len(keys))[:nsub]]
            cuts = {k: pick_cutoff(rng, bm[k].ravel()) for k in subset}
            cut_kw = dict(cutoff_dict=dict(cuts))
        elif mode == "scalar_and_dict_keep":
            keep = keys[int(rng.integers(len(keys)))]
            c = pick_cutoff(rng, np.concatenate([bm[k].ravel() for k in keys if k != keep]))
            cuts = {k: c for k in keys if k != keep}
            cut_kw = dict(cutoff=c, cutoff_dict={keep: -1})
        elif mode == "scalar":
            c = pick_cutoff(rng, np.concatenate([bm[k].ravel() for k in keys]))
            cuts = {k: c for k in keys}
            cut_kw = dict(cutoff=c)
        else:
            cuts = {k: pick_cutoff(rng, bm[k].ravel()) for k in keys}
            cut_kw = dict(cutoff_dict=dict(cuts))
        if any(c is None for c in cuts.values()):
            cut_kw = None
            ctx.count("cutoff_tie_skipped")
        else:
            wit["cutoff_mode"] = mode
            wit["cutoff"] = {k: float(c) for k, c in cuts.items()}
            twin = copy.deepcopy(system)
            wit["cutoff_blocks_dropped"] = truncate_blocks(twin, cuts, slices)
    use_symmetrize2 = sub_index is not None or cut_kw is not None
    if use_symmetrize2:
        def do_symmetrize(sysobj, first=True):
            kw2 = {}
            if sub_index is not None:
                kw2["use_symmetries_index"] = copy.deepcopy(sub_arg)
            if first and cut_kw is not None:
                kw2.update(copy.deepcopy(cut_kw))
            try:
                sysobj.symmetrize2(sym_probe, **kw2)
            except AssertionError as e:
                # known finding (KNOWN_FINDINGS.txt): when a whole star of (R, atom a, atom b) blocks lies below the cutoff in every matrix the
                # bookkeeping of SymWann.average_XX_block(mode="single") fails; own mechanism key, so that the assertion is still reported as a
                # new violation wherever it shows up without a cutoff
                if first and cut_kw is not None and wit.get("cutoff_mode") in ("scalar", "dict_all") and "some R vectors were not set" in str(e):
                    raise harness.Violation("symmetrize2(cutoff):AssertionError_when_a_whole_star_of_blocks_is_below_the_cutoff", str(e)[:300], wit)
                raise
            return sym_probe
        if sub_index is not None:
            wit["subgroup"] = [int(i) for i in sub_index]
            ctx.count("subgroup_cases")
    else:
        def do_symmetrize(sysobj, first=True):
            if first or reorder_back:
                return sysobj.symmetrize(**kw)
            # the Wannier functions may have been regrouped by the first call (reorder_back=False): the returned symmetrizer describes the new order
            sysobj.symmetrize2(symmetrizer)
            return symmetrizer
    # scale of every matrix taken from the INPUT: a matrix may vanish by symmetry after the operation (AA of one s orbital on an inversion centre)
    in_scale = {key: float(np.abs(system._XX_R[key]).max()) for key in keys}
    symmetrizer = do_symmetrize(system)
    if cut_kw is not None:
        # ---- (0) documented meaning of the cutoff: same result as symmetrising the model in which the small blocks were zeroed by hand -------------
        with env.quiet():
            do_symmetrize(twin, first=False)
        got, ref = matrices_by_R(system), matrices_by_R(twin)
        for key in keys:
            scale = max(in_scale[key], max(np.abs(x).max() for x in ref[key].values()))
            worst = 0.0
            for R in set(got[key]) | set(ref[key]):
                a, b = got[key].get(R), ref[key].get(R)
                worst = max(worst, np.abs(a if b is None else b if a is None else a - b).max())
            ctx.close("symmetrize2(cutoff)!=symmetrize2(model_truncated_by_hand)", worst, 0.0, atol=1e-10 * scale, rtol=0,
                      what=f"cutoff {key}", witness=wit)
        ctx.close("symmetrize2(cutoff)!=symmetrize2(model_truncated_by_hand):centres", system.wannier_centers_cart, twin.wannier_centers_cart,
                  atol=1e-10, rtol=0, what="centres", witness=wit)
        ctx.count("cutoff_cases")
        ctx.count("cutoff_cases_with_dropped_blocks", int(wit["cutoff_blocks_dropped"] > 0))
    monitors.assert_no_stale_caches(ctx, system, "symmetrize", wit)
    sg_ops = None
    try:
        sg = symmetrizer.spacegroup if symmetrizer is not None else None
        if sg is not None:
            sg_ops = [(np.array(op.rotation), np.array(op.translation)) for i, op in enumerate(sg.symmetries) if sub_index is None or i in sub_index]
    except Exception:
        sg_ops = None
    pg = system.pointgroup
    wit["group_order"] = pg.size
    wit["nR_after"] = system.rvec.nRvec
    # ---- (1) symmetry of energies / Berry curvature / spin at random k, tensor action written here -----------------------------------
    noisy = bool(np.abs(noise).max() > 0)
    mixing = any(orbs[sp] != "s" for sp in species)
    # the property speaks about the (total) Berry curvature; its split into internal and external terms is symmetric term by term only when
    # the centres of the individual Wannier functions are symmetric themselves (exact starting centres), see the known finding on centres
    quantities = ["energy", "berry_curvature"] + ([] if noisy else ["berry_curvature_internal_terms", "berry_curvature_external_terms"]) \
        + (["spin"] if "SS" in keys else [])
    recip = system.recip_lattice
    for ik in range(3 if not ctx.thorough else 6):
        k = rng.uniform(0, 1, 3)
        r0 = wb.evaluate_k(system, k=tuple(k), quantities=quantities, return_single_as_dict=True)
        E0 = np.asarray(r0["energy"])
        gaps0 = np.diff(np.sort(E0))
        if gaps0.size and np.any((gaps0 > 1e-7) & (gaps0 < 1e-2)):
            ctx.count("skipped_tie_near_degenerate_k")   # exactly degenerate multiplets are fine: evaluate_k averages over them
            continue
        for s in pg.symmetries:
            sign = (-1 if s.TR else 1) * (-1 if s.Inv else 1)
            A = sign * (recip @ np.asarray(s.R).T @ np.linalg.inv(recip))
            kg = k @ A
            r1 = wb.evaluate_k(system, k=tuple(kg), quantities=quantities, return_single_as_dict=True)
            ctx.close("E(gk)!=E(k)", r1["energy"], E0, rtol=1e-9, scale=np.abs(E0).max(), what="energy", witness=wit)
            for q in quantities[1:]:
                # axial vectors: rotate with the proper part; odd under time reversal; even under inversion
                expected = (np.asarray(r0[q]) @ np.asarray(s.R).T) * (-1 if s.TR else 1)
                sc = max(np.abs(r0[q]).max(), 1e-3 * np.abs(E0).max())
                mech = f"{q}(gk)!=g.{q}(k)"
                if q == "berry_curvature" and noisy and mixing:
                    mech += "[non-symmetric_start,shell_mixed_by_site_group]"   # known finding, same root cause as the centres
                # rtol 1e-6 (was 1e-7): on the unchanged tree the symmetry of the Berry curvature holds to 0.3-0.7e-7 of the scale in thorough
                # runs (residual asymmetry of the symmetrised matrices amplified by 1/gap^2 at gaps just above the tie guard) - too thin a
                # margin; a genuine asymmetry is >= 7e-4 (the known finding) or O(1)
                ctx.close(mech, r1[q], expected, rtol=1e-6, scale=sc, what=q, witness=wit)
        ctx.count("k_points_checked")
    # ---- (2) Hermiticity ---------------------------------------------------------------------------------------------------------------
    byR = matrices_by_R(system)
    for key in keys:
        if key in gen_systems.NON_HERMITIAN:
            continue
        scale = max(in_scale[key], max(np.abs(x).max() for x in byR[key].values()))
        worst = 0.0
        for R, X in byR[key].items():
            mR = tuple(-x for x in R)
            ctx.ev()
            if mR not in byR[key]:
                if np.abs(X).max() > 1e-10 * scale:
                    ctx.violation("R_set_not_closed_under_-R_after_symmetrize", f"{key} R={R}", wit)
                continue
            worst = max(worst, np.abs(X - np.conj(np.swapaxes(byR[key][mR], 0, 1))).max())
        ctx.close("X(-R)!=X(R)^dagger_after_symmetrize", worst, 0.0, atol=1e-10 * scale, rtol=0, what=f"hermiticity {key}", witness=wit)
    # ---- (3) centres map onto each other ---------------------------------------------------------------------------------------------
    # centres of the Wannier functions of one atom are averaged (the trace of the position operator over the shell is basis independent:
    # orbitals of a shell that the site group mixes, e.g. px/py under C3, need not have individually symmetric centres)
    cr_all = system.wannier_centers_red
    if reorder_back or use_symmetrize2:
        cr = np.array([cr_all[starts[i]:starts[i + 1]].mean(axis=0) for i in range(len(nper))])
    else:
        # reorder_back=False: the Wannier functions may have been regrouped by Wyckoff position; the functions of one atom are found by position
        # (the start was at most a few 0.01 of a lattice vector off the atom)
        d = cr_all[:, None, :] - pos[None, :, :]
        d -= np.round(d)
        dist = np.linalg.norm(d @ lattice, axis=2)
        owner = dist.argmin(axis=1)
        if len(pos) > 1 and np.sort(dist, axis=1)[:, 0].max() > 0.3 * np.sort(dist, axis=1)[:, 1].min():
            ctx.violation("wannier_centres_not_on_the_atoms_after_symmetrize", f"largest distance to the nearest atom {dist.min(axis=1).max()}", wit)
        cr = np.array([(pos[ia] + d[owner == ia, ia].mean(axis=0)) for ia in range(len(pos)) if np.any(owner == ia)])
        regrouped = not np.array_equal(owner, [ia for sp, o, n in entries for ia, nm in enumerate(atom_names) if nm == sp for _ in range(n * spin_factor)])
        ctx.count("regrouped_by_wyckoff_position(reorder_back=False)", int(regrouped))
        ctx.count("reorder_back_false_cases")
    if sg_ops is not None:
        for W, t in sg_ops:
            img = cr @ W.T + t[None, :]
            for c in img:
                d = cr - c[None, :]
                ctx.ev()
                if np.abs(d - np.round(d)).max(axis=1).min() > 1e-6:
                    ctx.violation("wannier_centres_not_mapped_onto_each_other", f"image {c} of a (site-averaged) centre is not a centre", wit)
                    break
        ctx.count("centre_maps_checked")
    # centres must sit on the atoms (the start was at most 0.01 Angstrom-ish off)
    # ---- (4) idempotence -------------------------------------------------------------------------------------------------------------
    # history after the operation: the symmetrised model written to disk and read back gives the same values and is symmetrised again
    if rng.random() < 0.25:
        kk = tuple(rng.uniform(0, 1, 3))
        qq = ["energy", "berry_curvature"]
        r_mem = wb.evaluate_k(system, k=kk, quantities=qq, return_single_as_dict=True)
        loaded = npz_roundtrip(system)
        r_npz = wb.evaluate_k(loaded, k=kk, quantities=qq, return_single_as_dict=True)
        Esc = np.abs(r_mem["energy"]).max()
        ctx.close("symmetrized_system_after_npz_roundtrip:energy", r_npz["energy"], r_mem["energy"], rtol=1e-10, scale=Esc, what="energy", witness=wit)
        ctx.close("symmetrized_system_after_npz_roundtrip:berry_curvature", r_npz["berry_curvature"], r_mem["berry_curvature"], rtol=1e-8,
                  scale=max(np.abs(r_mem["berry_curvature"]).max(), 1e-3 * Esc), what="berry curvature", witness=wit)
        system = loaded
        ctx.count("history_after:npz_roundtrip")
    if wit.get("group_order", 0) > 0 and symmetrizer is None:
        ctx.count("reordered_and_ordered_back")
    before = matrices_by_R(system)
    cbefore = system.wannier_centers_cart.copy()
    do_symmetrize(system, first=False)
    after = matrices_by_R(system)
    for key in keys:
        scale = max(in_scale[key], max(np.abs(x).max() for x in before[key].values()))
        worst = 0.0
        for R in set(before[key]) | set(after[key]):
            a = after[key].get(R)
            b = before[key].get(R)
            if a is None or b is None:
                x = a if b is None else b
                worst = max(worst, np.abs(x).max())   # an R present on one side only must carry (numerically) nothing
            else:
                worst = max(worst, np.abs(a - b).max())
        ctx.close("symmetrize_is_not_idempotent", worst, 0.0, atol=1e-9 * scale, rtol=0, what=f"second symmetrisation changed {key}", witness=wit)
    mixing = any(orbs[sp] != "s" for sp in species)
    mech = "symmetrize_is_not_idempotent:centres"
    if noisy and mixing:
        # known finding (KNOWN_FINDINGS.txt): the centres are averaged with the weights |D_ij(g)|^2, which is not a projection when the site
        # group mixes the orbitals of a shell; visible only when the starting centres are not symmetric already
        mech = "symmetrize_is_not_idempotent:centres[non-symmetric_start,shell_mixed_by_site_group]"
    ctx.close(mech, system.wannier_centers_cart, cbefore, atol=1e-9, rtol=0, what="centres", witness=wit)
    ctx.count("noisy_start_cases", int(noisy))
    ctx.nontrivial((sname, tuple(p.replace(" ", "") for p in proj), soc, mag is not None, tuple(keys), merged, doubled, cut_kw is not None))
    ctx.count("merged_species_cases", int(merged))
    ctx.count("atoms_permuted_cases", int(atoms_permuted))
    ctx.count("multi_shell_cases", int(multi_shell))
    ctx.count("combined_projection_cases(;)", int(any(v == "combined" for v in proj_form.values())))
    ctx.count("separate_projection_cases", int(any(v == "separate" for v in proj_form.values())))
    ctx.count(f"group_{'large' if pg.size >= 16 else 'small'}")
    ctx.count("magnetic_cases", int(mag is not None))
    ctx.count("soc_cases", int(soc))
    ctx.sample(wit)


if __name__ == "__main__":
    harness.main(
        PROP, "exploration", case, setup_fn=setup,
        tiers=dict(quick=dict(cases=32, shards=8, time=900), thorough=dict(cases=480, shards=16, time=3000)),
        rule="24 crystal-structure templates with <=4 atoms (incl. magnetic ones), projections s/p/d per species (sp3 on tetrahedral sites), with and "
             "without SOC, random starting matrices (Ham, AA, SS, optionally BB, CC) and slightly displaced starting centres; distinct = (structure, "
             "projections, soc, magnetic, matrices)",
        assumptions=["space group from irrep/spglib through the code's own symmetrize()", "tensor action on axial vectors written in the harness",
                     "only consistent projection sets (full shells; sp3 on tetrahedral sites)"],
        required_counters=("subgroup_cases", "k_points_checked", "centre_maps_checked", "group_large", "group_small", "magnetic_cases", "soc_cases",
                           "cutoff_cases", "cutoff_cases_with_dropped_blocks",
                           "reorder_back_false_cases"),
    )
