"""C18 - system files round-trip (META).

A random Hermitian real-space model (vlib.gen_systems.herm_system; 1-7 Wannier functions, odd and
even, any R set, centres inside/outside the home cell, optional point group, 3D or 2D periodic) is

  * saved with System_R.to_npz and loaded with System_R.from_npz          (any set of matrices),
  * written with to_tb_file and read with from_tb_file                    (Ham, optionally AA; both
    phase conventions; centres taken from the file or given),
  * written with to_hr_file and read with from_hr_file                    (Ham + *_wannier_centre_WT_format.dat).

The harness compares, with code of its own, lattice, centres, the R set *as a set* (matrices are matched
by R; an R missing on one side must carry an exactly-zero matrix on the other), every matrix, the point
group as a set of operations (npz), the bands of the reloaded system (evaluate_k) against an independent
diagonalisation of the *original* matrices, and the Berry curvature (evaluate_k, original vs reloaded).

Tolerances: npz is binary -> 1e-14 of the largest element.  The text formats document `%15.8e`
(9 significant digits): every real and imaginary part must be reproduced to half a unit of the 9th
significant digit *of that element* (+4 ulp for the decimal->binary conversion); a writer that prints fewer
digits than documented therefore fails.  Bands: Weyl bound sum_R ||dH(R)|| computed from the same per-element
bound.  `np.savetxt` lattice (`%.18e`) and the `{x:10}` centre file (shortest repr) must be exact (centres
below 1e-7 are documented to be written as 0).

The Ndegen handling of the two text readers is not reachable from the writers (they always write Ndegen = 1),
so each written file is additionally rewritten *by the harness* with random degeneracies 1..4 and the
entries multiplied accordingly (printed with one more digit, which is exact) - the reader must return the
same system (differential, few-ulp tolerance).
"""
import os
import shutil
import sys
import tempfile

sys.path.insert(0, os.path.dirname(os.path.dirname(os.path.abspath(__file__))))
from vlib import env, harness, gen_systems  # noqa: E402
import numpy as np  # noqa: E402

PROP = "C18"
DIGITS = 8           # documented text format of _tb.dat / _hr.dat entries: %15.8e
OTHER_KEYS = ("AA", "BB", "CC", "SS", "OO", "GG", "FF", "SA", "SHA", "SR", "SH", "SHR")

GENERATORS = {
    "cubic": ["C4z", "C4x", "Mx", "My", "Mz", "Inversion", "TimeReversal", "C2x", "C2y", "C2z",
              "TimeReversal*C2x", "TimeReversal*Mz", "C4y"],
    "tetragonal": ["C4z", "Mx", "My", "Mz", "Inversion", "TimeReversal", "C2x", "C2y", "C2z", "TimeReversal*C4z"],
    "orthorhombic": ["Mx", "My", "Mz", "C2x", "C2y", "C2z", "Inversion", "TimeReversal", "TimeReversal*C2z"],
    "hexagonal": ["C6z", "C3z", "C2z", "Mx", "My", "Mz", "Inversion", "TimeReversal", "C2x", "C2y",
                  "TimeReversal*C6z"],
    "other": ["Inversion", "TimeReversal", "Inversion*TimeReversal"],
}


def setup(ctx):
    env.import_wb()
    os.makedirs(os.path.join(env.WORK, "c18"), exist_ok=True)
    return {}


# ------------------------------------------------------------------ harness-side comparisons

def unit_last_digit(x, digits=DIGITS):
    """half a unit of the last digit of `%.{digits}e` for every element of the real array x (0 for x == 0)"""
    ax = np.abs(x)
    e = np.floor(np.log10(np.where(ax > 0, ax, 1.0)))
    half = 0.5 * 10.0 ** (e - digits)
    return np.where(ax > 0, half * (1 + 1e-9) + 4 * np.spacing(ax), 0.0)


def printed_bound(z, digits=DIGITS):
    """per-element bound for a (complex or real) array printed part by part"""
    z = np.asarray(z)
    if np.iscomplexobj(z):
        return unit_last_digit(z.real, digits), unit_last_digit(z.imag, digits)
    return unit_last_digit(z, digits), None


def printed_close(ctx, mech, orig, new, what, wit, digits=DIGITS):
    """every element reproduced to half a unit of the last documented digit"""
    ctx.ev()
    orig = np.asarray(orig)
    new = np.asarray(new)
    if orig.shape != new.shape:
        ctx.violation(mech, f"{what}: shapes differ {orig.shape} vs {new.shape}", wit)
        return False
    if orig.size == 0:
        return True
    br, bi = printed_bound(orig, digits)
    parts = [(orig.real, np.asarray(new).real, br)]
    if bi is not None:
        parts.append((orig.imag, np.asarray(new).imag, bi))
    worst = 0.0
    for o, n, b in parts:
        d = np.abs(o - n)
        if not np.all(np.isfinite(n)):
            ctx.violation(mech, f"{what}: non-finite values read back", wit)
            return False
        bad = d > b
        with np.errstate(divide="ignore", invalid="ignore"):
            ratio = np.where(b > 0, d / np.where(b > 0, b, 1.0), np.where(d > 0, np.inf, 0.0))
        worst = max(worst, float(ratio.max()))
        if np.any(bad):
            i = np.unravel_index(np.argmax(ratio), ratio.shape)
            ctx.dev(mech, worst)
            ctx.violation(mech, f"{what}: element {tuple(int(j) for j in i)} written {o[i]!r} read {n[i]!r}: "
                                f"|diff|={d[i]:.3e} > half unit of the last documented digit {b[i]:.3e} "
                                f"(ratio {ratio[i]:.3g})", wit)
            return False
    ctx.dev(mech, worst)
    return True


def match_R(ctx, tag, orig, new, keys, wit):
    """R set as a set: returns (index arrays io, in) of the common R vectors; R vectors present on one side
    only must carry exactly-zero matrices on that side (readers may drop/add zero blocks)"""
    iRo = [tuple(int(x) for x in R) for R in orig.rvec.iRvec]
    iRn = [tuple(int(x) for x in R) for R in new.rvec.iRvec]
    ctx.ev()
    if len(set(iRn)) != len(iRn):
        ctx.violation(f"{tag}:Rset", "duplicate R vectors in the reloaded system", wit)
        return None
    dn = {R: i for i, R in enumerate(iRn)}
    do = {R: i for i, R in enumerate(iRo)}
    for R, i in do.items():
        if R not in dn:
            for k in keys:
                if np.any(orig.get_R_mat(k)[i] != 0):
                    ctx.violation(f"{tag}:Rset", f"R={R} with non-zero {k} is missing in the reloaded system", wit)
                    return None
    for R, i in dn.items():
        if R not in do:
            for k in keys:
                if np.any(new.get_R_mat(k)[i] != 0):
                    ctx.violation(f"{tag}:Rset", f"extra R={R} with non-zero {k} in the reloaded system", wit)
                    return None
    common = [R for R in iRo if R in dn]
    return np.array([do[R] for R in common], dtype=int), np.array([dn[R] for R in common], dtype=int)


def group_as_set(pg):
    return [(np.array(s.R) * (-1 if s.Inv else 1), bool(s.TR)) for s in pg.symmetries]


def compare_groups(ctx, tag, pgo, pgn, wit):
    ctx.ev()
    A = group_as_set(pgo)
    B = group_as_set(pgn)
    if len(A) != len(B):
        ctx.violation(f"{tag}:pointgroup", f"group size {len(A)} -> {len(B)}", wit)
        return
    used = set()
    for R, TR in A:
        hit = [j for j, (R2, TR2) in enumerate(B) if TR2 == TR and np.abs(R - R2).max() < 1e-9 and j not in used]
        if not hit:
            ctx.violation(f"{tag}:pointgroup", f"operation R={R.tolist()} TR={TR} lost", wit)
            return
        used.add(hit[0])
    ctx.close(f"{tag}:pointgroup", pgn.real_lattice, pgo.real_lattice, rtol=1e-14, what="pointgroup.real_lattice",
              witness=wit)


def compare_system(ctx, tag, orig, new, keys, wit, text, centres_text, kpts, rng_dummy=None, berry_q=None,
                   lattice_exact=True, pointgroup=False):
    """orig -> (file) -> new.  text: matrices went through %15.8e; centres_text: 'e8' (printed %15.8e),
    'wt' (WT centre file: exact, |x|<=1e-7 -> 0) or None (binary / passed by the caller: exact)"""
    nw = orig.num_wann
    ctx.ev()
    if int(new.num_wann) != int(nw):
        ctx.violation(f"{tag}:num_wann", f"num_wann {nw} -> {new.num_wann}", wit)
        return
    Lo = np.array(orig.real_lattice)
    ctx.close(f"{tag}:lattice", np.array(new.real_lattice), Lo, rtol=1e-14, what="real_lattice", witness=wit)
    ctx.ev()
    if not np.array_equal(np.array(new.periodic, dtype=bool), np.array(orig.periodic, dtype=bool)):
        ctx.violation(f"{tag}:periodic", f"periodic {orig.periodic} -> {new.periodic}", wit)
    co = np.array(orig.wannier_centers_cart)
    cn = np.array(new.wannier_centers_cart)
    if centres_text == "e8":
        printed_close(ctx, f"{tag}:centres", co, cn, "wannier_centers_cart", wit)
    elif centres_text == "wt":
        ctx.ev()
        if co.shape != cn.shape:
            ctx.violation(f"{tag}:centres", f"shape {co.shape} -> {cn.shape}", wit)
        else:
            bound = np.where(np.abs(co) <= 1e-7, 1e-7, 4 * np.spacing(np.abs(co)))
            d = np.abs(co - cn)
            ctx.dev(f"{tag}:centres", float((d / bound).max()) if d.size else 0.0)
            if np.any(d > bound):
                i = np.unravel_index(np.argmax(d / bound), d.shape)
                ctx.violation(f"{tag}:centres", f"centre {tuple(int(j) for j in i)}: {co[i]!r} -> {cn[i]!r}", wit)
    else:
        ctx.close(f"{tag}:centres", cn, co, rtol=1e-14, scale=np.abs(Lo).max(), what="wannier_centers_cart", witness=wit)
    for k in keys:
        ctx.ev()
        if not new.has_R_mat(k):
            ctx.violation(f"{tag}:matrix", f"matrix {k} missing in the reloaded system", wit)
            return
    m = match_R(ctx, tag, orig, new, keys, wit)
    if m is None:
        return
    io, inw = m
    hbound = 0.0
    for k in keys:
        Xo = orig.get_R_mat(k)[io]
        Xn = new.get_R_mat(k)[inw]
        if text:
            printed_close(ctx, f"{tag}:matrix", Xo, Xn, f"{k}_R (matched by R)", wit)
            if k == "Ham":
                br, bi = printed_bound(Xo)
                hbound = float(np.sum(np.sqrt((br ** 2 + bi ** 2).sum(axis=(1, 2)))))  # sum_R ||dH(R)||_F
        else:
            ctx.close(f"{tag}:matrix", Xn, Xo, rtol=1e-14, what=f"{k}_R (matched by R)", witness=wit)
    if pointgroup:
        compare_groups(ctx, tag, orig.pointgroup, new.pointgroup, wit)

    # consequences: bands (independent reference from the ORIGINAL matrices) and Berry curvature
    from wannierberri.evaluate_k import evaluate_k
    a0 = float(np.mean(np.linalg.norm(Lo, axis=1)))
    Eref = gen_systems.bands(orig, kpts)
    escale = max(1.0, float(np.abs(Eref).max()))
    for ik, k in enumerate(kpts):
        res = evaluate_k(new, k=tuple(k), quantities=["energy", berry_q], return_single_as_dict=True)
        ctx.close(f"{tag}:bands", res["energy"], Eref[ik], rtol=0.0, atol=1e-10 * escale + 1.5 * hbound,
                  what=f"bands at k={k}", witness=wit)
        gap = np.diff(Eref[ik]).min() if nw > 1 else np.inf
        if gap < 0.03:
            ctx.count("berry_skipped_small_gap")
            continue
        ref = evaluate_k(orig, k=tuple(k), quantities=[berry_q], return_single_as_dict=True)[berry_q]
        rel = 1e-9 + (1e-6 + 50 * hbound / min(gap, 1.0) if text or centres_text else 0.0)
        ctx.close(f"{tag}:berry", res[berry_q], ref, rtol=rel, scale=a0 ** 2, what=f"{berry_q} at k={k}", witness=wit)


# ------------------------------------------------------------------ Ndegen rewrite (harness-side)

def _scale_tokens(tokens, n):
    return [f"{float(t) * n:.9e}" for t in tokens]


def rewrite_with_ndegen(path_in, path_out, fmt, nw, has_AA, rng):
    """same file with random degeneracies 1..4 and the entries multiplied by them (one more printed digit:
    exact).  returns the degeneracies"""
    lines = open(path_in).read().split("\n")
    head = 6 if fmt == "tb" else 3
    nR = int(lines[head - 1])
    nl = (nR + 14) // 15
    nd = rng.integers(1, 5, size=nR)
    out = lines[:head]
    for i in range(0, nR, 15):
        out.append("  ".join(f"{x:2d}" for x in nd[i:i + 15]))
    pos = head + nl
    if fmt == "hr":
        for iR in range(nR):
            for _ in range(nw * nw):
                t = lines[pos].split()
                out.append(" ".join(t[:5] + _scale_tokens(t[5:7], int(nd[iR]))))
                pos += 1
    else:
        for _sec in range(2 if has_AA else 1):
            for iR in range(nR):
                out.append(lines[pos])
                out.append(lines[pos + 1])
                pos += 2
                for _ in range(nw * nw):
                    t = lines[pos].split()
                    out.append(" ".join(t[:2] + _scale_tokens(t[2:], int(nd[iR]))))
                    pos += 1
    out += lines[pos:]
    with open(path_out, "w") as f:
        f.write("\n".join(out))
    return nd


def compare_same_reader(ctx, tag, a, b, keys, wit):
    """two readings that must coincide up to the float division by Ndegen"""
    ctx.ev()
    if not np.array_equal(a.rvec.iRvec, b.rvec.iRvec):
        ctx.violation(f"{tag}:ndegen_equivalent_file_differs", "R vectors differ", wit)
        return
    ctx.close(f"{tag}:ndegen_equivalent_file_differs", b.wannier_centers_cart, a.wannier_centers_cart, rtol=1e-14,
              what="centres read from a file with Ndegen != 1", witness=wit)
    for k in keys:
        ctx.close(f"{tag}:ndegen_equivalent_file_differs", b.get_R_mat(k), a.get_R_mat(k), rtol=1e-14,
                  what=f"{k}_R read from a file with Ndegen != 1 and entries multiplied by Ndegen", witness=wit)


# ------------------------------------------------------------------ the case

def case(ctx, rng, idx, state):
    from wannierberri.system.system_R import System_R

    nw = int(rng.integers(1, 8))
    if rng.random() < 0.6:
        kind = ["cubic", "tetragonal", "orthorhombic", "hexagonal", "fcc", "monoclinic"][int(rng.integers(6))]
        kind, lattice = gen_systems.bravais_lattice(rng, kind)
    else:
        kind, lattice = "random", gen_systems.random_lattice(rng)
    cmode = ["random", "outside", "groups", "highsym", "zero", "tiny"][int(rng.integers(6))]
    periodic = (True, True, False) if rng.random() < 0.15 else (True, True, True)
    nother = int(rng.integers(0, 4))
    others = tuple(OTHER_KEYS[i] for i in sorted(rng.choice(len(OTHER_KEYS), nother, replace=False)))
    if rng.random() < 0.6 and "AA" not in others:
        others = ("AA",) + others
    keys = ("Ham",) + others
    if cmode == "tiny":
        centers = gen_systems.random_centers(rng, nw, "random")
        msk = rng.random(centers.shape) < 0.4
        tiny_cart = np.where(msk, rng.uniform(-9e-8, 9e-8, centers.shape), centers @ lattice)
        centers = tiny_cart @ np.linalg.inv(lattice)
    else:
        centers = cmode
    system = gen_systems.herm_system(rng, num_wann=nw, lattice=lattice, radius=rng.uniform(0.9, 2.4), keys=keys,
                                     centers=centers, periodic=periodic, thin=float(rng.choice([0.0, 0.3, 0.6])))
    gens = []
    pool = GENERATORS.get(kind, GENERATORS["other"])
    if rng.random() < 0.7:
        gens = [pool[i] for i in rng.choice(len(pool), int(rng.integers(1, 4)), replace=False)]
        system.set_pointgroup(gens)
    # the system may have been used before it is saved: caches are populated, and it may have gone through other API calls
    hist = "as_built"
    u = rng.random()
    if u < 0.2 and not system.spinor and not any(k in others for k in ("SS", "SA", "SHA", "SR", "SH", "SHR")):
        import wannierberri as wb
        _ = system.range_wann, system.wannier_centers_red, system.rvec.iR0, system.rvec.cRvec_shifted
        wb.evaluate_k(system, k=(0.1, 0.2, 0.3 * periodic[2]), quantities=["energy"])
        system.double_spin()
        nw = system.num_wann
        keys = keys + tuple(k for k in system._XX_R if k not in keys)   # double_spin adds SS
        hist = "used_then_double_spin"
    elif u < 0.5:
        system, hist = gen_systems.history_variant(rng, system, which=gen_systems.HISTORIES_NO_DISK[1 + int(rng.integers(3))])
    ctx.count(f"history_{hist}")
    nR = system.rvec.nRvec
    Ham = system.get_R_mat("Ham")
    iR0 = system.rvec.iR0
    hop = float(np.abs(np.delete(Ham, iR0, axis=0)).max()) if nR > 1 else 0.0
    kpts = rng.uniform(-0.5, 1.0, (2, 3)) * np.array(periodic, dtype=float)[None, :]
    wit = dict(history=hist, nw=nw, lattice=kind, nR=nR, centers=cmode, keys=keys, generators=gens, periodic=periodic,
               group_size=system.pointgroup.size)
    has_AA = "AA" in keys
    berry_full = "berry_curvature" if has_AA else "berry_curvature_internal_terms"
    # systems without position matrix elements that declare it (as the tight-binding importers do): every quantity with external terms is
    # then evaluated with internal terms only - the declaration has to survive the npz round trip
    fito = bool(not has_AA and rng.random() < 0.5)
    if fito:
        system.force_internal_terms_only = True
        ctx.count("force_internal_terms_only_systems")

    tmp = tempfile.mkdtemp(dir=os.path.join(env.WORK, "c18"))
    try:
        # ---------------- npz
        sub = None
        if len(keys) > 1 and rng.random() < 0.3:
            sub = ["Ham"] + [k for k in keys[1:] if rng.random() < 0.5]
        path = os.path.join(tmp, "sysdir")
        if sub is not None and rng.random() < 0.5:
            system.to_npz(path, R_matrices=sub)
            s_npz = System_R.from_npz(path)
        elif sub is not None:
            system.to_npz(path)
            s_npz = System_R.from_npz(path, matrices=sub)
        else:
            system.to_npz(path)
            s_npz = System_R.from_npz(path)
        knpz = tuple(sub) if sub is not None else keys
        ctx.ev()
        got = set(s_npz._XX_R.keys())
        if got != set(knpz):
            ctx.violation("to_npz/from_npz:matrix", f"matrices {sorted(knpz)} expected, {sorted(got)} loaded", wit)
        ctx.ev()
        if bool(getattr(s_npz, "force_internal_terms_only", False)) != fito:
            ctx.violation("to_npz/from_npz:force_internal_terms_only", f"{fito} -> {getattr(s_npz, 'force_internal_terms_only', None)}", wit)
        compare_system(ctx, "to_npz/from_npz", system, s_npz, knpz, wit, text=False, centres_text=None, kpts=kpts,
                       berry_q="berry_curvature" if ("AA" in knpz or fito) else "berry_curvature_internal_terms",
                       pointgroup=True)
        ctx.count("roundtrip_npz")
        if system.pointgroup.size > 1:
            ctx.count("pointgroup_nontrivial")

        # ---------------- _tb.dat
        tbf = os.path.join(tmp, "model_tb.dat")
        par = dict(periodic=periodic, silent=True)
        if has_AA:
            mode = ["II_berry", "II_noberry", "I_berry"][int(rng.integers(3))]
        else:
            mode = "noAA"
        if mode == "I_berry":
            system.to_tb_file(tb_file=tbf, use_convention_II=False)
            s_tb = System_R.from_tb_file(tb_file=tbf, berry=True, convention_II_to_I=False,
                                         wannier_centers_cart=system.wannier_centers_cart.copy(), **par)
            ktb, ctext = ("Ham", "AA"), None
            ctx.count("tb_conventionI")
        elif mode == "II_berry":
            system.to_tb_file(tb_file=tbf)
            s_tb = System_R.from_tb_file(tb_file=tbf, berry=True, **par)
            ktb, ctext = ("Ham", "AA"), "e8"
            ctx.count("tb_with_AA")
        elif mode == "II_noberry":
            system.to_tb_file(tb_file=tbf)
            s_tb = System_R.from_tb_file(tb_file=tbf, **par)
            ktb, ctext = ("Ham",), "e8"
            ctx.count("tb_centres_from_AA_section")
        else:
            system.to_tb_file(tb_file=tbf)
            s_tb = System_R.from_tb_file(tb_file=tbf, wannier_centers_cart=system.wannier_centers_cart.copy(), **par)
            ktb, ctext = ("Ham",), None
            ctx.count("tb_without_AA")
        compare_system(ctx, "to_tb_file/from_tb_file", system, s_tb, ktb, wit, text=True, centres_text=ctext, kpts=kpts,
                       berry_q="berry_curvature" if "AA" in ktb else "berry_curvature_internal_terms")
        ctx.count("roundtrip_tb")
        # same file with Ndegen != 1
        tbf2 = os.path.join(tmp, "degen_tb.dat")
        nd = rewrite_with_ndegen(tbf, tbf2, "tb", nw, has_AA, rng)
        kw = dict(par)
        if mode == "I_berry":
            kw.update(berry=True, convention_II_to_I=False, wannier_centers_cart=system.wannier_centers_cart.copy())
        elif mode == "II_berry":
            kw.update(berry=True)
        elif mode == "noAA":
            kw.update(wannier_centers_cart=system.wannier_centers_cart.copy())
        s_tb2 = System_R.from_tb_file(tb_file=tbf2, **kw)
        compare_same_reader(ctx, "from_tb_file", s_tb, s_tb2, ktb, wit)
        if np.any(nd > 1):
            ctx.count("ndegen_rewrite")

        # ---------------- _hr.dat + centre file
        seed = os.path.join(tmp, "model")
        system.to_hr_file(seedname=seed)
        s_hr = System_R.from_hr_file(seedname=seed, real_lattice=np.array(system.real_lattice), **par)
        compare_system(ctx, "to_hr_file/from_hr_file", system, s_hr, ("Ham",), wit, text=True, centres_text="wt", kpts=kpts,
                       berry_q="berry_curvature_internal_terms")
        ctx.count("roundtrip_hr")
        ctx.count("odd_num_wann_hr" if nw % 2 else "even_num_wann_hr")
        seed2 = os.path.join(tmp, "degen")
        nd = rewrite_with_ndegen(seed + "_hr.dat", seed2 + "_hr.dat", "hr", nw, False, rng)
        shutil.copy(seed + "_wannier_centre_WT_format.dat", seed2 + "_wannier_centre_WT_format.dat")
        s_hr2 = System_R.from_hr_file(seedname=seed2, real_lattice=np.array(system.real_lattice), **par)
        compare_same_reader(ctx, "from_hr_file", s_hr, s_hr2, ("Ham",), wit)
        if np.any(nd > 1):
            ctx.count("ndegen_rewrite")
    finally:
        shutil.rmtree(tmp, ignore_errors=True)

    if nR >= 3 and hop > 1e-3:
        ctx.nontrivial((nw, nR, kind, cmode, keys, tuple(gens), periodic, mode))
    ctx.sample(wit)


if __name__ == "__main__":
    harness.main(
        PROP, "exploration", case, setup_fn=setup,
        tiers=dict(quick=dict(cases=640, shards=8, time=900), thorough=dict(cases=16000, shards=16, time=3000)),
        rule="random Hermitian real-space models (1-7 WFs odd and even, Bravais/random lattices, thinned -R-symmetric R "
             "balls, centres inside/outside/co-centred/high-symmetry/zero/below the 1e-7 print threshold, 3D and 2D "
             "periodic, random sets of extra matrices, point groups from lattice-compatible generators) pushed through "
             "npz, _tb.dat (4 reader/writer configurations) and _hr.dat+centre file, plus harness-rewritten files with "
             "Ndegen 1..4; a case counts as non-trivial if it has >= 3 R vectors and a hopping > 1e-3; distinct by "
             "(num_wann, nR, lattice, centre mode, matrices, generators, periodicity, tb mode)",
        assumptions=["text-format bound = half a unit of the 9th significant digit of every printed number (%15.8e as "
                     "documented in write_tb_file/write_hr_file) + 4 ulp; max deviation/tolerance close to 1 is expected "
                     "for these rounding bounds (they are attained), a 8-digit writer would give ~10",
                     "band reference = harness diagonalisation of the original matrices; Weyl bound sum_R ||dH(R)||_F",
                     "Berry curvature compared original vs reloaded through the same evaluate_k (metamorphic), only at "
                     "k points with all gaps > 0.03",
                     "from_hr_file is given real_lattice (the format has none); tb files without an AA section and "
                     "convention-I files are read with wannier_centers_cart given, as documented",
                     "Ndegen != 1 files are produced by the harness, not by the writers (which always write 1)"],
        required_counters=("force_internal_terms_only_systems", "roundtrip_npz", "roundtrip_tb", "roundtrip_hr", "odd_num_wann_hr", "even_num_wann_hr",
                           "pointgroup_nontrivial", "tb_with_AA", "tb_conventionI", "tb_without_AA",
                           "tb_centres_from_AA_section", "ndegen_rewrite"),
    )
