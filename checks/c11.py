"""C11 - restarting an interrupted refinement run reproduces the uninterrupted run (HIST + DIFF).

For a total of n refinement iterations the uninterrupted run() is compared with **every composition** of the
n iterations into restart segments (first segment may have 0 refinement iterations), for both storage modes
(allow_restart, dump_results), with and without symmetry.  At every restart the directory listing that
run() obtains through glob is permuted by the harness (sorted, reversed, the file system's own order, random
permutations): fault injection on the environment, not on the code.  Compared: the result of every global
iteration (captured at savedata and reloaded from the saved files), the returned result, the number of
K-point evaluations (no K-point may be evaluated again after a restart) and the set of restart files.
"""
import itertools
import os
import shutil
import sys

sys.path.insert(0, os.path.dirname(os.path.dirname(os.path.abspath(__file__))))
from vlib import env, harness, gen_pg, monitors, runkit  # noqa: E402
import numpy as np  # noqa: E402

PROP = "C11"


def setup(ctx):
    env.import_wb()
    return {}


def compositions(n):
    """all ways to write n = a1 + a2 + ... with a1 >= 0 and a_i >= 1 for i > 1 (more than one segment)"""
    out = []
    for a1 in range(0, n):
        rest = n - a1
        for k in range(1, rest + 1):
            for cuts in itertools.combinations(range(1, rest), k - 1):
                parts = [b - a for a, b in zip((0,) + cuts, cuts + (rest,))]
                out.append((a1,) + tuple(parts))
    return out


class GlobOrder:
    """wraps glob.glob as seen by run_grid: returns the same files in an adversary-chosen order"""

    def __init__(self, mode, rng):
        self.mode = mode
        self.rng = rng
        self.calls = 0
        self.reordered = 0

    def install(self):
        import wannierberri.run_grid as run_grid
        self.mod = run_grid.glob
        self.orig = run_grid.glob.glob
        this = self

        def fake_glob(pattern, *a, **k):
            files = this.orig(pattern, *a, **k)
            this.calls += 1
            if this.mode == "sorted":
                new = sorted(files)
            elif this.mode == "reversed":
                new = sorted(files)[::-1]
            elif this.mode == "fs":
                new = list(files)
            else:
                new = [files[i] for i in this.rng.permutation(len(files))]
            if new != sorted(files):
                this.reordered += 1
            return new
        self.mod.glob = fake_glob

    def remove(self):
        self.mod.glob = self.orig


def run_segments(wb, system, grid, calcs, segments, base_kw, tmp, tag, glob_modes, rng, ctx):
    """run the segments one after the other in directory tmp/tag; returns dict iteration -> {key: data}, returned result,
    number of set_result calls, sorted list of restart files, number of reordered listings"""
    d = os.path.join(tmp, tag)
    os.makedirs(d, exist_ok=True)
    captured = {}
    nset = 0
    reordered = 0
    res = None
    klist_path = os.path.join(d, "klist")
    for iseg, a in enumerate(segments):
        mon = monitors.RunMonitor()

        def on_save(resdict, i_iter):
            captured[i_iter] = {k: np.array(resdict.results[k].data) for k in calcs}
        mon.on_savedata.append(on_save)
        g = GlobOrder(glob_modes[iseg % len(glob_modes)], rng)
        g.install()
        try:
            with monitors.chdir(d), mon:
                res = wb.run(system, grid, calcs, adpt_num_iter=a, restart=(iseg > 0), parallel=False, fout_name="c11",
                             file_Klist_path=klist_path, print_progress_step_time=1e9, **base_kw)
        finally:
            g.remove()
        nset += mon.counters.get("set_result_calls", 0)
        reordered += g.reordered
        for mech, msg, w in mon.violations:
            ctx.violation(mech, msg, dict(monitor_witness=w, segments=segments, tag=tag))
        ctx.ev(mon.counters.get("klist_checks", 0))
    files = sorted(os.listdir(klist_path)) if os.path.isdir(klist_path) else []
    return captured, res, nset, files, reordered, d


def case(ctx, rng, idx, state):
    import wannierberri as wb
    from wannierberri.grid import Grid
    from wannierberri.result import EnergyResult

    nmax = 5 if ctx.thorough else 3
    n = int(rng.integers(1, nmax + 1))
    with_group = bool(rng.random() < 0.5)
    system, info = runkit.make_run_system(rng, with_group=with_group, num_wann=2, max_order=8)
    pg = system.pointgroup
    if with_group:
        div = gen_pg.symmetric_sizes(pg, rng, nmax=2, mixed=info["mixed"])
        fft = gen_pg.symmetric_sizes(pg, rng, nmax=2, mixed=info["mixed"])
    else:
        div = np.array([int(x) for x in rng.integers(1, 3, size=3)])
        fft = np.array([int(x) for x in rng.integers(1, 3, size=3)])
    if np.prod(div) == 1:
        div = np.array([2, 2, 2]) if (not with_group or pg.symmetric_grid([2, 2, 2])) else div
    if idx % 6 == 2 and not with_group:
        # tetrahedral grid: the K-point list that is pickled and reloaded consists of tetrahedra
        from wannierberri.grid import GridTetra
        fft = np.array([int(x) for x in rng.integers(1, 3, size=3)])
        with env.quiet():
            grid = GridTetra(system, length=float(rng.uniform(3, 8)), NKFFT=fft.copy())
        info = dict(info, grid="GridTetra")
        ctx.count("tetrahedral_grid_cases")
    else:
        grid = Grid(system, NKdiv=div, NKFFT=fft)
        if not (np.all(grid.div == div) and np.all(grid.FFT == fft)):
            raise harness.Skip("grid adjusted")
    use_irred = bool(with_group and rng.random() < 0.8)
    storage = "dump_results" if rng.random() < 0.5 else "allow_restart"
    adpt_mesh = 2
    adpt_fac = int(rng.integers(1, 3))
    Ef = runkit.fermi_grid(rng, system, n=4)
    calcs = runkit.make_calculators(rng, system, Ef, nmax=2, allow_tetra=False)
    klist_part = int(rng.choice([1, 2, 3, 7, 10, 1000]))    # the K-point list is pickled in portions of this size
    ctx.count(f"Klist_part_{'small' if klist_part < 10 else 'default_or_large'}")
    base_kw = dict(Klist_part=klist_part, adpt_mesh=adpt_mesh, adpt_fac=adpt_fac, use_irred_kpt=use_irred, symmetrize=use_irred,
                   allow_restart=(storage == "allow_restart"), dump_results=(storage == "dump_results"))
    wit = dict(info, n=n, Klist_part=klist_part, NKdiv=div, NKFFT=fft, use_irred_kpt=use_irred, storage=storage, adpt_fac=adpt_fac, calculators=sorted(calcs), Efermi=Ef)
    tmp = os.path.join(env.WORK, f"c11-{os.getpid()}-{idx}")
    os.makedirs(tmp, exist_ok=True)
    modes_all = ["sorted", "reversed", "fs", "random", "random", "random"]
    try:
        ref, ref_res, ref_nset, ref_files, _, dref = run_segments(wb, system, grid, calcs, (n,), base_kw, tmp, "ref", ["fs"], rng, ctx)
        scale = {k: max(max(float(np.abs(v[k]).max()) for v in ref.values()), 1e-300) for k in calcs}
        # natural scale from the stored per-K results would be better for symmetric zeros; the systems here are generic
        if sorted(ref) != list(range(n + 1)):
            ctx.violation("uninterrupted_run_did_not_save_every_iteration", f"{sorted(ref)}", wit)
        comps = compositions(n)
        if not ctx.thorough and len(comps) > 8:
            comps = [comps[i] for i in sorted(rng.choice(len(comps), 8, replace=False))]
            ctx.count("compositions_sampled_not_exhaustive")
        for ic, segs in enumerate(comps):
            glob_modes = [modes_all[int(rng.integers(len(modes_all)))] for _ in segs]
            if ic % 3 == 0:
                glob_modes = ["reversed"] * len(segs)
            w = dict(case=wit, segments=segs, glob_orders=glob_modes)
            got, res, nset, files, reordered, d = run_segments(wb, system, grid, calcs, segs, base_kw, tmp, f"c{ic}", glob_modes, rng, ctx)
            ctx.count("restart_histories")
            ctx.count("restarts", len(segs) - 1)
            ctx.count("listings_delivered_in_non_sorted_order", reordered)
            for it in range(n + 1):
                # every global iteration is saved exactly once: by the segment that computes it (a restarted segment does
                # not save its starting iteration again)
                if it not in got:
                    ctx.violation("restarted_run_did_not_save_an_iteration", f"iteration {it} missing, segments {segs}", w)
                    continue
                for k in calcs:
                    ctx.close("restarted_result!=uninterrupted_result", got[it][k], ref[it][k], rtol=1e-9, scale=scale[k],
                              what=f"iteration {it} key {k} segments {segs} glob {glob_modes}", witness=w)
            for k in calcs:
                ctx.close("returned_result_after_restart!=uninterrupted", res.results[k].data, ref_res.results[k].data, rtol=1e-9, scale=scale[k],
                          what=f"returned, key {k}, segments {segs}", witness=w)
            ctx.ev()
            if nset != ref_nset:
                ctx.violation("K-points_evaluated_a_different_number_of_times_after_restart",
                              f"{nset} evaluations with segments {segs}, {ref_nset} uninterrupted", w)
            ctx.ev()
            if files != ref_files:
                ctx.violation("restart_files_differ_from_uninterrupted_run",
                              f"only in restarted: {sorted(set(files) - set(ref_files))[:5]}, only in uninterrupted: {sorted(set(ref_files) - set(files))[:5]}", w)
            # saved files of the final iteration
            for k, c in calcs.items():
                f = os.path.join(d, f"c11-{k}_iter-{n:04d}.npz")
                if os.path.exists(f):
                    r = EnergyResult.from_npz(f)
                    ctx.close("saved_file_after_restart!=uninterrupted", r.data, ref[n][k], rtol=1e-9, scale=scale[k], what=os.path.basename(f), witness=w)
            shutil.rmtree(d, ignore_errors=True)
            ctx.nontrivial((info["group"], info["tr"], tuple(div.tolist()), tuple(fft.tolist()), use_irred, storage, adpt_fac, n, segs, tuple(glob_modes),
                            tuple(sorted(calcs))))
        # ---- restart from an *earlier* completed iteration of a finished run (restart_iteration=j) -------------
        if n >= 2:
            j = int(rng.integers(0, n))
            dj = os.path.join(tmp, "early")
            os.makedirs(dj, exist_ok=True)
            first, _, _, _, _, _ = run_segments(wb, system, grid, calcs, (n,), base_kw, tmp, "early", ["fs"], rng, ctx)
            live = {}
            mon = monitors.RunMonitor()
            mon.before_process.append(lambda K_list, it: live.__setitem__("K", K_list))
            w = dict(case=wit, restart_iteration=j)

            def on_save_early(resdict, i_iter):
                # continuing from an earlier iteration need not reproduce the same refinement (ties in the selection
                # of cells are broken by list position), but the reported result must still be the weighted sum of the
                # stored per-K results over the live list
                tot = None
                sc = {k: 0.0 for k in calcs}
                for K in live["K"]:
                    f = float(K.factor)
                    if f == 0.0:
                        continue
                    r = K.get_result()
                    for k in calcs:
                        sc[k] += abs(f) * float(np.abs(r.results[k].data).max())
                    tot = r * f if tot is None else tot + r * f
                for k in calcs:
                    ctx.close("restart_from_earlier_iteration:result!=sum_K_factor*stored_result", resdict.results[k].data, tot.results[k].data,
                              rtol=1e-9, scale=sc[k], what=f"iteration {i_iter} key {k} restart_iteration={j}", witness=w)
            mon.on_savedata.append(on_save_early)
            g = GlobOrder("reversed", rng)
            g.install()
            try:
                with monitors.chdir(dj), mon:
                    wb.run(system, grid, calcs, adpt_num_iter=n - j, restart=True, restart_iteration=j, parallel=False, fout_name="c11",
                           file_Klist_path=os.path.join(dj, "klist"), print_progress_step_time=1e9, **base_kw)
            finally:
                g.remove()
            for mech, msg, ww in mon.violations:
                ctx.violation(mech, msg, dict(monitor_witness=ww, case=w))
            ctx.count("restarts_from_earlier_iteration")
            shutil.rmtree(dj, ignore_errors=True)
        ctx.count(f"storage_{storage}")
        ctx.count(f"n={n}")
        ctx.sample(dict(group=info["group"], n=n, NKdiv=div, NKFFT=fft, storage=storage, use_irred_kpt=use_irred, compositions=comps[:8],
                        evaluations_uninterrupted=ref_nset, restart_files=ref_files[:6]))
    finally:
        shutil.rmtree(tmp, ignore_errors=True)


if __name__ == "__main__":
    harness.main(
        PROP, "fault_enumeration", case, setup_fn=setup,
        tiers=dict(quick=dict(cases=64, shards=8, time=900), thorough=dict(cases=320, shards=16, time=3000)),
        rule="generic 2-WF systems with or without a declared point group, small grids, n=1..3 (quick) / 1..5 (thorough) refinement iterations; every "
             "composition of n into restart segments (exhaustive per case in the thorough tier, at most 8 sampled per case in the quick tier), both "
             "storage modes, directory listing order per restart from {sorted, reversed, file system, random}; distinct by (system parameters, "
             "composition, listing orders)",
        assumptions=["listing order is injected by wrapping glob.glob as looked up by run_grid (same files, different order)",
                     "tolerance 1e-9 of the magnitude of the uninterrupted result (generic systems: no component vanishes by symmetry)"],
        required_counters=("restart_histories", "restarts", "restarts_from_earlier_iteration", "listings_delivered_in_non_sorted_order", "storage_allow_restart", "storage_dump_results"),
    )
