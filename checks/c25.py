"""C25 - spin doubling and spin-orbit assembly preserve the spectrum (REF + DIFF).

Six families of cases (idx % 6):
 0  System_R.double_spin: every level of the spinless system exactly twice at random k
    (evaluate_k and Data_K_R.HH_K = H(k) (x) 1_2 in interlaced order), the spin operator restricted to
    every doubled level has eigenvalues +-1 and obeys the Pauli algebra, it commutes with H, other
    matrices (AA) are doubled the same way.
 1  SystemSOC with alpha_soc = 0 (or without any SOC matrices): spectrum = union of the spin-up and
    spin-down spectra for equal / permuted / nested / overlapping R sets (evaluate_k and Data_K_soc.HH_K);
    with alpha_soc != 0: spectrum = reference assembly of vlib.gen_soc (documented formula).
 2  SystemSOC.get_system_R(): HH_K, Xbar('SS'), Xbar('Ham',1) (rotated back to the Wannier basis) equal those
    of Data_K_soc at random K-points, and both equal the harness reference.
 3  SOC.get_pauli_rotated(theta, phi): Pauli algebra, Hermitian, traceless, component along n(theta,phi) =
    diag(1,-1); set_soc_axis(units='degrees') == set_soc_axis(radians); spin operator of a one-channel
    SystemSOC along the axis = diag(+1,-1,...) at R=0.

 4  (idx % 6, widening review) one SystemSOC object through 1-3 public calls - swap_spin_channels (+ set_soc_axis), a second
    set_soc_axis with other angles / units, to_npz -> from_npz (-> set_soc_axis), swap twice, use (warm caches) - judged after
    every step: spectrum, HH_K, SS(k), dH/dk (independent reference with channel-dependent centres) of Data_K_soc and of
    get_system_R(); results handed out earlier stay valid; 3D and 2D.
 5  set_soc_R options on the same synthetic input: kptirr/weights_k naming every mesh point (permuted), ws_dist_tol, SOC data /
    overlap as array, list, dict, SOC.select_bands of a larger band set (different selections per channel), axis set later.
    Pending findings (VERIF_C25_PENDING=1): stale centres after swap_spin_channels with channel-dependent centres; to_npz() of a
    SystemSOC built without cell.

Oracles: eigenvalues / matrices computed in the harness from the real-space matrices
(vlib.gen_systems.bands, vlib.gen_soc.soc_H_ref / soc_SS_ref), never from Ham_SOC / SS of the system.
"""
import copy
import os
import sys

sys.path.insert(0, os.path.dirname(os.path.dirname(os.path.abspath(__file__))))
from vlib import env, harness, gen_systems, gen_soc, monitors  # noqa: E402
import numpy as np  # noqa: E402

PROP = "C25"
RTOL = 1e-10
EPS = np.zeros((3, 3, 3))
EPS[0, 1, 2] = EPS[1, 2, 0] = EPS[2, 0, 1] = 1
EPS[0, 2, 1] = EPS[2, 1, 0] = EPS[1, 0, 2] = -1


def setup(ctx):
    env.import_wb()
    return {}


def ft(iR, X, k):
    return np.einsum("r,r...->...", np.exp(2j * np.pi * (np.asarray(iR) @ np.asarray(k, dtype=float))), X)


def make_data_k(system, NK, dK, **par):
    """Data_K object on an FFT grid NK shifted by dK (reduced, in units of the full BZ) - built like run() does"""
    from wannierberri.grid import Grid
    from wannierberri.grid.Kpoint import KpointBZparallel
    from wannierberri.data_K import get_data_k_class_from_system
    grid = Grid(system, NKdiv=1, NKFFT=NK, use_symmetry=False)
    Kp = KpointBZparallel(K=np.array(dK) * np.array(NK), dK=np.ones(3), NKFFT=np.array(NK), factor=1.0,
                          pointgroup=grid.pointgroup, refinement_level=0)
    cls = get_data_k_class_from_system(system)
    data = cls(system, dK=Kp.Kp_fullBZ, grid=grid, Kpoint=Kp, **par)
    kall = np.array([(i / NK[0], j / NK[1], k / NK[2]) for i in range(NK[0]) for j in range(NK[1])
                     for k in range(NK[2])]) + np.array(dK)[None, :]
    return data, kall


def wannier_gauge(data, X):
    U = data.UU_K
    return np.einsum("kab,kbc...,kdc->kad...", U, X, U.conj())


def pauli_algebra_dev(S):
    """max deviation of S[..., a] (n x n x 3) from s_a s_b = delta_ab + i eps_abc s_c"""
    n = S.shape[0]
    dev = 0.0
    for a in range(3):
        for b in range(3):
            lhs = S[:, :, a] @ S[:, :, b]
            rhs = (a == b) * np.eye(n) + 1j * np.einsum("c,ijc->ij", EPS[a, b], S)
            dev = max(dev, np.abs(lhs - rhs).max())
    return dev


# --------------------------------------------------------------------------------------------------
def case_double_spin(ctx, rng, idx):
    import wannierberri as wb
    nw = int(rng.integers(1, 6))
    keys = ("Ham", "AA") if rng.random() < 0.5 else ("Ham",)
    cmode = ["random", "outside", "groups", "zero"][int(rng.integers(4))]
    s0 = gen_systems.herm_system(rng, num_wann=nw, radius=rng.uniform(1.0, 2.3), keys=keys, centers=cmode,
                                 thin=rng.choice([0.0, 0.3]))
    s2 = gen_systems.copy_system(s0)
    s2, hist = gen_systems.history_variant(rng, s2, which=gen_systems.HISTORIES_NO_DISK[int(rng.integers(4))])
    if hist.startswith("ws_dist"):
        s0 = copy.deepcopy(s2)    # do_ws_dist folds the R-vectors: the spinless reference is the system after it
    used = bool(rng.random() < 0.5)
    if used:
        monitors.warm_caches(s2)   # a system that has been used before it is spin-doubled
    s2.double_spin()
    iR = s0.rvec.iRvec
    wit = dict(kind="double_spin", history=hist, used_before=used, nw=nw, nR=len(iR), keys=keys, centers=cmode)
    monitors.assert_no_stale_caches(ctx, s2, "double_spin", wit)
    ctx.count(f"double_spin_history_{hist}")
    if s2.num_wann != 2 * nw:
        ctx.violation("double_spin:num_wann", f"num_wann={s2.num_wann}, expected {2 * nw}", wit)
        return
    ks = rng.uniform(-1, 1, (3, 3))
    Eref = gen_systems.bands(s0, ks)
    scale = max(np.abs(Eref).max(), 1.0)
    for k, e in zip(ks, Eref):
        E = wb.evaluate_k(s2, k=k, quantities=["energy"])
        ctx.close("double_spin:evaluate_k_energy!=each_level_twice", E, np.repeat(e, 2), rtol=RTOL, scale=scale,
                  what="doubled spectrum", witness=wit)
    ctx.count("double_spin_spectrum")
    # Data_K on an FFT grid
    NK = tuple(int(x) for x in rng.integers(1, 4, size=3))
    dK = rng.uniform(0, 1, 3) / np.array(NK)
    data, kall = make_data_k(s2, NK, dK)
    Href = np.array([ft(iR, s0.get_R_mat("Ham"), k) for k in kall])
    Hexp = np.zeros((len(kall), 2 * nw, 2 * nw), dtype=complex)
    Hexp[:, 0::2, 0::2] = Href
    Hexp[:, 1::2, 1::2] = Href
    ctx.close("double_spin:HH_K!=H(k)x1_2", data.HH_K, Hexp, rtol=RTOL, scale=scale, what="HH_K of doubled system",
              witness=wit)
    Ek = np.linalg.eigvalsh(0.5 * (Href + np.conj(np.swapaxes(Href, 1, 2))))
    ctx.close("double_spin:E_K!=each_level_twice", data.E_K, np.repeat(Ek, 2, axis=1), rtol=RTOL, scale=scale,
              what="E_K of doubled system", witness=wit)
    # spin operator in the eigenbasis
    SS = data.Xbar("SS")  # (nk, 2nw, 2nw, 3)
    gaps = np.diff(Ek, axis=1)
    nondeg = (gaps.size == 0) or (gaps.min() > 1e-6 * scale)
    if nondeg:
        dev_alg, dev_eig, dev_off = 0.0, 0.0, 0.0
        for ik in range(len(kall)):
            S = SS[ik]
            mask = np.ones((2 * nw, 2 * nw), dtype=bool)
            for m in range(nw):
                blk = S[2 * m:2 * m + 2, 2 * m:2 * m + 2, :]
                mask[2 * m:2 * m + 2, 2 * m:2 * m + 2] = False
                dev_alg = max(dev_alg, pauli_algebra_dev(blk))
                for c in range(3):
                    ev = np.linalg.eigvalsh(0.5 * (blk[:, :, c] + blk[:, :, c].conj().T))
                    dev_eig = max(dev_eig, np.abs(ev - np.array([-1.0, 1.0])).max())
            if nw > 1:
                dev_off = max(dev_off, np.abs(S[mask]).max())
        ctx.close("double_spin:spin_eigenvalues!=+-1", dev_eig, 0.0, atol=1e-9, what="spin eigenvalues in a doubled level",
                  witness=wit)
        ctx.close("double_spin:spin_block_not_pauli_algebra", dev_alg, 0.0, atol=1e-9, what="Pauli algebra in a doubled level",
                  witness=wit)
        ctx.close("double_spin:spin_does_not_commute_with_H", dev_off, 0.0, atol=1e-9,
                  what="spin matrix elements between different levels", witness=wit)
        ctx.count("double_spin_spin")
        sp = wb.evaluate_k(s2, k=ks[0], quantities=["spin"])  # (2nw, 3)
        ctx.close("double_spin:evaluate_k_spin_pair_sum!=0", sp[0::2] + sp[1::2], np.zeros((nw, 3)), atol=1e-9,
                  what="sum of spin expectation over a doubled level", witness=wit)
        ctx.close("double_spin:evaluate_k_spin_norm>1", np.maximum(np.linalg.norm(sp, axis=1), 1.0), np.ones(2 * nw),
                  atol=1e-9, what="|<sigma>| <= 1", witness=wit)
    else:
        ctx.count("double_spin_tie_no_spin_check")
    # spin operator in the Wannier basis: 1 (x) sigma
    SW = wannier_gauge(data, SS)
    Sexp = np.zeros_like(SW)
    for c in range(3):
        Sexp[:, :, :, c] = np.kron(np.eye(nw), gen_soc.SIGMA[c])[None]
    ctx.close("double_spin:SS_wannier!=1x_sigma", SW, Sexp, atol=1e-9, what="SS(k) in the Wannier basis", witness=wit)
    if "AA" in keys:
        A0 = np.array([ft(iR, s0.get_R_mat("AA"), k) for k in kall])
        A0 = 0.5 * (A0 + np.conj(np.swapaxes(A0, 1, 2)))
        Aexp = np.zeros((len(kall), 2 * nw, 2 * nw, 3), dtype=complex)
        Aexp[:, 0::2, 0::2] = A0
        Aexp[:, 1::2, 1::2] = A0
        AW = wannier_gauge(data, data.Xbar("AA"))
        ctx.close("double_spin:AA_wannier!=AAx1_2", AW, Aexp, rtol=RTOL, scale=max(np.abs(A0).max(), 1e-3),
                  what="AA(k) of doubled system", witness=wit)
    c2 = s2.wannier_centers_cart
    ctx.close("double_spin:centres", c2, np.repeat(s0.wannier_centers_cart, 2, axis=0), rtol=1e-12, atol=1e-12,
              what="wannier centres of doubled system", witness=wit)
    ctx.nontrivial(("double", nw, len(iR), keys, cmode, nondeg))
    ctx.sample(wit)


# --------------------------------------------------------------------------------------------------
def case_soc_union(ctx, rng, idx):
    import wannierberri as wb
    relation = gen_soc.RELATIONS[(idx // 4) % 4]
    variant = ["alpha0", "alpha0", "nosoc", "alpha"][int(rng.integers(4))]
    nspin = 2 if rng.random() < 0.85 else 1
    kw = dict(relation=relation, nspin=nspin)
    if variant == "alpha0":
        kw["alpha_soc"] = 0.0
    elif variant == "nosoc":
        kw["with_soc"] = False
    system, info = gen_soc.soc_system(rng, **kw)
    relation = info["relation"]
    nw = info["num_wann_scalar"]
    wit = dict(kind="soc_union", relation=relation, variant=variant, nspin=nspin, nw=nw, path=info["path"],
               rmode=info["rmode"], nR_up=info["system_up"].rvec.nRvec, nR_down=info["system_down"].rvec.nRvec,
               nR_soc=len(info["iRvec_soc"]), theta=info["theta"], phi=info["phi"], alpha_soc=info["alpha_soc"])
    real_rel = gen_soc.rset_relation(info["system_up"].rvec.iRvec, info["system_down"].rvec.iRvec)
    ks = rng.uniform(-1, 1, (3, 3))
    if variant == "alpha":
        Eref = gen_soc.soc_bands_ref(info, ks)
        mech = "SystemSOC:spectrum!=reference_assembly"
    else:
        Eref = gen_soc.updown_bands_union(info, ks)
        mech = "SystemSOC[alpha_soc=0]:spectrum!=union_up_down"
    scale = max(np.abs(Eref).max(), 1.0)
    for k, e in zip(ks, Eref):
        E = wb.evaluate_k(system, k=k, quantities=["energy"])
        ctx.close(mech + "[evaluate_k]", E, e, rtol=RTOL, scale=scale, what=f"spectrum {variant}", witness=wit)
    NK = tuple(int(x) for x in rng.integers(1, 4, size=3))
    dK = rng.uniform(0, 1, 3) / np.array(NK)
    data, kall = make_data_k(system, NK, dK, fftlib=str(rng.choice(["fftw", "numpy"])))
    if variant == "alpha":
        Eref2 = gen_soc.soc_bands_ref(info, kall)
    else:
        Eref2 = gen_soc.updown_bands_union(info, kall)
    H = data.HH_K
    ctx.close(mech + "[Data_K_soc.HH_K]", np.linalg.eigvalsh(H), Eref2, rtol=RTOL, scale=scale,
              what=f"eigenvalues of HH_K {variant}", witness=wit)
    ctx.close("Data_K_soc.HH_K!=reference_assembly", H, gen_soc.soc_H_ref(info, kall), rtol=RTOL, scale=scale,
              what=f"HH_K {variant}", witness=wit)
    ctx.close("Data_K_soc.HH_K_not_hermitian", H, np.conj(np.swapaxes(H, 1, 2)), rtol=RTOL, scale=scale,
              what="HH_K hermiticity", witness=wit)
    if variant != "alpha" and nspin == 2:
        # up and down blocks decouple: the spin-resolved spectra
        Eu = np.linalg.eigvalsh(H[:, 0::2, 0::2])
        Ed = np.linalg.eigvalsh(H[:, 1::2, 1::2])
        ctx.close("Data_K_soc.HH_K:up_block!=up_system", Eu, gen_systems.bands(info["system_up"], kall), rtol=RTOL,
                  scale=scale, what="up block", witness=wit)
        ctx.close("Data_K_soc.HH_K:down_block!=down_system", Ed, gen_systems.bands(info["system_down"], kall), rtol=RTOL,
                  scale=scale, what="down block", witness=wit)
    ctx.count(f"soc_union_{real_rel}")
    ctx.count(f"soc_variant_{variant}")
    if info["path"] == "chk":
        ctx.count("soc_via_set_soc_R")
        # on-mesh oracle for set_soc_R: SOC term at the ab-initio mesh points equals the input
        if variant == "alpha":
            kq = info["kpt_red"]
            sel = np.arange(len(kq)) if len(kq) <= 12 else rng.choice(len(kq), 12, replace=False)
            P = gen_soc.pauli_rotated_ref(info["theta"], info["phi"])
            Hs = np.zeros((len(sel), 2 * nw, 2 * nw), dtype=complex)
            for s in (0, 1):
                for t in (0, 1):
                    if info["nspin"] == 1:
                        X = info["dVW_q"][(0, 0)][sel]
                    elif s <= t:
                        X = info["dVW_q"][(s, t)][sel]
                    else:
                        X = np.conj(np.swapaxes(info["dVW_q"][(t, s)][sel], 1, 2))
                    Hs[:, s::2, t::2] = np.einsum("kmnc,c->kmn", X, P[s, t])
            Hs *= info["alpha_soc"]
            H0 = gen_soc.soc_H_ref(info, kq[sel], alpha_soc=0.0)
            Eq = np.linalg.eigvalsh(0.5 * (H0 + Hs + np.conj(np.swapaxes(H0 + Hs, 1, 2))))
            Eq_lib = np.array([wb.evaluate_k(system, k=k, quantities=["energy"]) for k in kq[sel]])
            ctx.close("set_soc_R:spectrum_on_mesh!=input", Eq_lib, Eq, rtol=RTOL, scale=scale,
                      what="spectrum at ab-initio mesh points", witness=wit)
    ctx.nontrivial(("union", real_rel, variant, nspin, nw, info["path"], info["rmode"]))
    ctx.sample(wit)


# --------------------------------------------------------------------------------------------------
def case_get_system_R(ctx, rng, idx):
    relation = gen_soc.RELATIONS[(idx // 4) % 4]
    nspin = 2 if rng.random() < 0.85 else 1
    keys = ("Ham", "AA") if rng.random() < 0.35 else ("Ham",)
    system, info = gen_soc.soc_system(rng, relation=relation, nspin=nspin, keys=keys,
                                      alpha_soc=None if rng.random() < 0.8 else 0.0)
    nw = info["num_wann_scalar"]
    real_rel = gen_soc.rset_relation(info["system_up"].rvec.iRvec, info["system_down"].rvec.iRvec)
    wit = dict(kind="get_system_R", relation=real_rel, nspin=nspin, nw=nw, path=info["path"], rmode=info["rmode"],
               nR_up=info["system_up"].rvec.nRvec, nR_down=info["system_down"].rvec.nRvec,
               nR_soc=len(info["iRvec_soc"]), theta=info["theta"], phi=info["phi"], alpha_soc=info["alpha_soc"],
               keys=keys)
    sysR = system.get_system_R()
    sysR.set_pointgroup([])
    NK = tuple(int(x) for x in rng.integers(1, 4, size=3))
    dK = rng.uniform(-0.5, 1.5, 3) if rng.random() < 0.3 else rng.uniform(0, 1, 3) / np.array(NK)
    d_soc, kall = make_data_k(system, NK, dK)
    d_R, _ = make_data_k(sysR, NK, dK)
    Href = gen_soc.soc_H_ref(info, kall)
    scale = max(np.abs(Href).max(), 1.0)
    ctx.close("get_system_R:HH_K!=Data_K_soc.HH_K", d_R.HH_K, d_soc.HH_K, rtol=RTOL, scale=scale, what="HH_K",
              witness=wit)
    ctx.close("get_system_R:HH_K!=reference_assembly", d_R.HH_K, Href, rtol=RTOL, scale=scale, what="HH_K vs reference",
              witness=wit)
    ctx.close("Data_K_soc.HH_K!=reference_assembly", d_soc.HH_K, Href, rtol=RTOL, scale=scale, what="HH_K vs reference",
              witness=wit)
    SSref = gen_soc.soc_SS_ref(info, kall)
    SSref = 0.5 * (SSref + np.conj(np.swapaxes(SSref, 1, 2)))
    S_R = wannier_gauge(d_R, d_R.Xbar("SS"))
    S_soc = wannier_gauge(d_soc, d_soc.Xbar("SS"))
    sscale = max(np.abs(SSref).max(), 1.0)
    ctx.close("get_system_R:Xbar(SS)!=Data_K_soc.Xbar(SS)", S_R, S_soc, rtol=RTOL, scale=sscale, what="SS", witness=wit)
    ctx.close("get_system_R:Xbar(SS)!=reference_assembly", S_R, SSref, rtol=RTOL, scale=sscale, what="SS vs reference",
              witness=wit)
    ctx.close("Data_K_soc.Xbar(SS)!=reference_assembly", S_soc, SSref, rtol=RTOL, scale=sscale, what="SS vs reference",
              witness=wit)
    # same eigenvalues => Hamiltonian-gauge diagonal of SS agrees where the spectrum is non-degenerate
    E = d_soc.E_K
    ctx.close("get_system_R:E_K!=Data_K_soc.E_K", d_R.E_K, E, rtol=RTOL, scale=scale, what="E_K", witness=wit)
    gaps = np.diff(E, axis=1)
    if gaps.min() > 1e-5 * scale:
        dg_R = np.einsum("knnc->knc", d_R.Xbar("SS")).real
        dg_s = np.einsum("knnc->knc", d_soc.Xbar("SS")).real
        ctx.close("get_system_R:spin_expectation!=Data_K_soc", dg_R, dg_s, atol=1e-8, what="<n|S|n>", witness=wit)
    # first derivative of the Hamiltonian (uses the centres)
    V_R = wannier_gauge(d_R, d_R.Xbar("Ham", 1))
    V_soc = wannier_gauge(d_soc, d_soc.Xbar("Ham", 1))
    vscale = max(np.abs(V_soc).max(), 1.0)
    ctx.close("get_system_R:Xbar(Ham,1)!=Data_K_soc.Xbar(Ham,1)", V_R, V_soc, rtol=1e-9, scale=vscale, what="dH/dk",
              witness=wit)
    if "AA" in keys:
        A_R = wannier_gauge(d_R, d_R.Xbar("AA"))
        A_soc = wannier_gauge(d_soc, d_soc.Xbar("AA"))
        ctx.close("get_system_R:Xbar(AA)!=Data_K_soc.Xbar(AA)", A_R, A_soc, rtol=1e-9, scale=max(np.abs(A_soc).max(), 1e-2),
                  what="AA", witness=wit)
    ctx.count("get_system_R")
    ctx.count(f"get_system_R_{real_rel}")
    ctx.nontrivial(("sysR", real_rel, nspin, nw, info["path"], info["rmode"], keys, NK))
    ctx.sample(wit)


# --------------------------------------------------------------------------------------------------
def case_pauli(ctx, rng, idx):
    from wannierberri.w90files.soc import SOC
    special = [0.0, np.pi / 2, np.pi, np.pi / 3, 2 * np.pi, -np.pi / 2]
    angles = []
    for _ in range(6):
        th = special[int(rng.integers(len(special)))] if rng.random() < 0.3 else rng.uniform(-np.pi, 2 * np.pi)
        ph = special[int(rng.integers(len(special)))] if rng.random() < 0.3 else rng.uniform(-2 * np.pi, 4 * np.pi)
        angles.append((th, ph))
    for th, ph in angles:
        wit = dict(kind="pauli", theta=th, phi=ph)
        P = np.array(SOC.get_pauli_rotated(theta=th, phi=ph))
        if P.shape != (2, 2, 3):
            ctx.violation("get_pauli_rotated:shape", f"shape {P.shape}", wit)
            continue
        ctx.close("get_pauli_rotated:not_pauli_algebra", pauli_algebra_dev(P), 0.0, atol=1e-12, what="Pauli algebra", witness=wit)
        ctx.close("get_pauli_rotated:not_hermitian", P, np.conj(np.swapaxes(P, 0, 1)), atol=1e-12, what="Hermitian", witness=wit)
        ctx.close("get_pauli_rotated:not_traceless", np.einsum("iic->c", P), np.zeros(3), atol=1e-12, what="traceless", witness=wit)
        n = gen_soc.axis_vector(th, ph)
        ctx.close("get_pauli_rotated:component_along_axis!=diag(1,-1)", np.einsum("ijc,c->ij", P, n), np.diag([1.0, -1.0]),
                  atol=1e-12, what="n.sigma", witness=wit)
        # moduli of the matrix elements are gauge independent
        ctx.close("get_pauli_rotated:|elements|!=reference", np.abs(P), np.abs(gen_soc.pauli_rotated_ref(th, ph)), atol=1e-12,
                  what="|<s|sigma|t>|", witness=wit)
        ctx.count("pauli_rotated")
    # degrees / radians flag of set_soc_axis and spin operator of a one-channel system
    nspin = 1 if rng.random() < 0.5 else 2
    th, ph = angles[0]
    if abs(np.sin(th)) < 1e-3 and rng.random() < 0.8:
        th = rng.uniform(0.3, 2.8)
    if abs(np.sin(ph)) < 1e-3 and rng.random() < 0.8:
        ph = rng.uniform(0.3, 2.8)
    alpha = rng.uniform(0.3, 1.5)
    system, info = gen_soc.soc_system(rng, nspin=nspin, path="direct", theta=th, phi=ph, alpha_soc=alpha, units="radians",
                                      num_wann=int(rng.integers(1, 4)))
    wit = dict(kind="units", nspin=nspin, theta=th, phi=ph, alpha_soc=alpha, nw=info["num_wann_scalar"])
    H_rad = np.array(system.get_R_mat("Ham_SOC"))
    S_rad = np.array(system.get_R_mat("SS"))
    iRs, Href = gen_soc.soc_ham_R_ref(info)
    _, Sref = gen_soc.soc_SS_R_ref(info)
    hs = max(np.abs(Href).max(), 1e-3)
    ctx.close("set_soc_axis:Ham_SOC!=reference_assembly", H_rad, Href, rtol=RTOL, scale=hs, what="Ham_SOC(R)", witness=wit)
    ctx.close("set_soc_axis:SS!=reference_assembly", S_rad, Sref, rtol=RTOL, scale=1.0, what="SS(R)", witness=wit)
    ret = system.set_soc_axis(theta=np.rad2deg(th), phi=np.rad2deg(ph), alpha_soc=alpha, units=str(rng.choice(["degrees", "Deg", "d"])))
    ctx.close("set_soc_axis:degrees!=radians[Ham_SOC]", system.get_R_mat("Ham_SOC"), H_rad, rtol=RTOL, scale=hs,
              what="units flag", witness=wit)
    ctx.close("set_soc_axis:degrees!=radians[SS]", system.get_R_mat("SS"), S_rad, rtol=RTOL, scale=1.0, what="units flag",
              witness=wit)
    ctx.close("set_soc_axis:return_value", ret[0], system.get_R_mat("Ham_SOC"), rtol=0, atol=0, what="returned Ham_SOC", witness=wit)
    ctx.count("units_flag")
    if nspin == 1:
        n = gen_soc.axis_vector(th, ph)
        nw = info["num_wann_scalar"]
        Sn = np.einsum("rabc,c->rab", S_rad, n)
        exp = np.zeros_like(Sn)
        exp[system.rvec.iR0] = np.diag(np.tile([1.0, -1.0], nw))
        ctx.close("set_soc_axis:spin_along_axis!=diag(1,-1)", Sn, exp, atol=1e-12, what="S.n of a one-channel system", witness=wit)
    # scaling factor: Ham_SOC is linear in alpha_soc
    a2 = rng.uniform(-2, 2)
    system.set_soc_axis(theta=th, phi=ph, alpha_soc=a2)
    ctx.close("set_soc_axis:Ham_SOC_not_linear_in_alpha_soc", np.array(system.get_R_mat("Ham_SOC")) * alpha, H_rad * a2,
              rtol=RTOL, scale=hs * max(abs(a2), abs(alpha)), what="alpha_soc scaling", witness=wit)
    ctx.nontrivial(("pauli", nspin, info["num_wann_scalar"], round(th, 3), round(ph, 3)))
    ctx.sample(wit)


# --------------------------------------------------------------------------------------------------
#   widening review: histories of one SystemSOC object and documented options of set_soc_R / SOC
# --------------------------------------------------------------------------------------------------
PENDING = os.environ.get("VERIF_C25_PENDING", "0") == "1"


def swap_info(info):
    """reference description of the system after SystemSOC.swap_spin_channels(): the channels, the diagonal SOC blocks are
    exchanged, dV^{01}_new(R) = dV^{10}(R) = dV^{01}(-R)^dagger, O_new(R) = O(-R)^dagger"""
    new = dict(info)
    if info["nspin"] == 1:
        return new
    new["system_up"], new["system_down"] = info["system_down"], info["system_up"]
    m, iR = info["mats"], info["iRvec_soc"]
    new["mats"] = {"dV_soc_wann_0_0": m["dV_soc_wann_1_1"], "dV_soc_wann_1_1": m["dV_soc_wann_0_0"],
                   "dV_soc_wann_0_1": gen_soc._conj_R(iR, m["dV_soc_wann_0_1"]),
                   "overlap_up_down": gen_soc._conj_R(iR, m["overlap_up_down"])}
    return new


def _dH_block(iR, X, k, lattice, ci, cj):
    iR = np.asarray(iR)
    ph = np.exp(2j * np.pi * (iR @ k))
    d = (iR @ lattice)[:, None, None, :] + cj[None, None, :, :] - ci[None, :, None, :]
    return np.einsum("r,rij,rija->ija", ph, X, 1j * d)


def soc_dH_ref(info, kall):
    """reference dH/dk in the Wannier basis (convention of Xbar('Ham',1): factors i(R + t_j - t_i), phases e^{2 pi i k.R}), every spin
    channel with its own centres and R set, the SOC term with the interlaced centres"""
    s_up, s_dn = info["system_up"], info["system_down"]
    nw = info["num_wann_scalar"]
    lat = np.array(s_up.real_lattice)
    iRs, HsocR = gen_soc.soc_ham_R_ref(info)
    cc = np.zeros((2 * nw, 3))
    cc[0::2] = s_up.wannier_centers_cart
    cc[1::2] = s_dn.wannier_centers_cart
    out = []
    for k in kall:
        V = np.zeros((2 * nw, 2 * nw, 3), dtype=complex)
        V[0::2, 0::2] = _dH_block(s_up.rvec.iRvec, s_up.get_R_mat("Ham"), k, lat, cc[0::2], cc[0::2])
        V[1::2, 1::2] = _dH_block(s_dn.rvec.iRvec, s_dn.get_R_mat("Ham"), k, lat, cc[1::2], cc[1::2])
        V += _dH_block(iRs, HsocR, k, lat, cc, cc)
        out.append(V)
    return np.array(out)


def build_soc(rng, nspin, path, same_centers, periodic, relation=None, num_wann=None, chk_kw=None, **axis):
    """like gen_soc.soc_system, with the periodicity and the set_soc_R options open"""
    if relation is None:
        relation = gen_soc.RELATIONS[int(rng.integers(4))]
    if num_wann is None:
        num_wann = int(rng.integers(1, 4))
    s_up, s_dn = gen_soc.updown_systems(rng, num_wann=num_wann, relation=relation, same_centers=same_centers, periodic=periodic)
    if nspin == 1:
        s_dn = None
    if path == "direct":
        system, info = gen_soc.soc_system_direct(rng, s_up, s_dn, **axis)
    else:
        system, info = gen_soc.soc_system_via_chk(rng, s_up, s_dn, **axis, **(chk_kw or {}))
    info["relation"] = relation if nspin == 2 else "equal"
    info["system_up"] = s_up
    info["system_down"] = s_dn if s_dn is not None else s_up
    info["num_wann_scalar"] = s_up.num_wann
    return system, info


def random_axis(rng):
    theta = [0.0, np.pi / 2, np.pi, rng.uniform(0, np.pi), rng.uniform(0, np.pi)][int(rng.integers(5))]
    phi = [0.0, rng.uniform(-np.pi, np.pi), rng.uniform(0, 2 * np.pi)][int(rng.integers(3))]
    alpha = [1.0, rng.uniform(0.2, 2.0), -rng.uniform(0.2, 1.0)][int(rng.integers(3))]
    return float(theta), float(phi), float(alpha)


def judge_soc(ctx, rng, system, info, wit, after, judge_dH=True):
    """all observations of a SystemSOC against the harness reference described by info"""
    import wannierberri as wb
    per = np.array(info["system_up"].periodic, dtype=bool)
    ks = rng.uniform(-1, 1, (2, 3))
    Eref = gen_soc.soc_bands_ref(info, ks)
    scale = max(np.abs(Eref).max(), 1.0)
    for k, e in zip(ks, Eref):
        E = wb.evaluate_k(system, k=k, quantities=["energy"])
        ctx.close(f"after_{after}:spectrum!=reference_assembly[evaluate_k]", E, e, rtol=RTOL, scale=scale, what="spectrum", witness=wit)
    NK = [int(x) for x in rng.integers(1, 4, size=3)]
    for i in range(3):
        if not per[i]:
            NK[i] = 1
    NK = tuple(NK)
    dK = rng.uniform(0, 1, 3) / np.array(NK) * per
    data, kall = make_data_k(system, NK, dK)
    Href = gen_soc.soc_H_ref(info, kall)
    ctx.close(f"after_{after}:Data_K_soc.HH_K!=reference_assembly", data.HH_K, Href, rtol=RTOL, scale=scale, what="HH_K", witness=wit)
    SSref = gen_soc.soc_SS_ref(info, kall)
    SSref = 0.5 * (SSref + np.conj(np.swapaxes(SSref, 1, 2)))
    ctx.close(f"after_{after}:Data_K_soc.Xbar(SS)!=reference_assembly", wannier_gauge(data, data.Xbar("SS")), SSref, rtol=RTOL,
              scale=max(np.abs(SSref).max(), 1.0), what="SS", witness=wit)
    sysR = system.get_system_R()
    sysR.set_pointgroup([])
    d_R, _ = make_data_k(sysR, NK, dK)
    ctx.close(f"after_{after}:get_system_R:HH_K!=reference_assembly", d_R.HH_K, Href, rtol=RTOL, scale=scale, what="HH_K", witness=wit)
    ctx.close(f"after_{after}:get_system_R:Xbar(SS)!=reference_assembly", wannier_gauge(d_R, d_R.Xbar("SS")), SSref, rtol=RTOL,
              scale=max(np.abs(SSref).max(), 1.0), what="SS", witness=wit)
    if judge_dH:
        Vref = soc_dH_ref(info, kall)
        vs = max(np.abs(Vref).max(), 1.0)
        ctx.close(f"after_{after}:Data_K_soc.Xbar(Ham,1)!=reference_assembly", wannier_gauge(data, data.Xbar("Ham", 1)), Vref,
                  rtol=1e-9, scale=vs, what="dH/dk", witness=wit)
        ctx.close(f"after_{after}:get_system_R:Xbar(Ham,1)!=reference_assembly", wannier_gauge(d_R, d_R.Xbar("Ham", 1)), Vref,
                  rtol=1e-9, scale=vs, what="dH/dk", witness=wit)
        ctx.count("history_dH_judged")
    ctx.count(f"history_judged_after_{after}")


def op_npz(ctx, rng, system, info, wit):
    """to_npz -> from_npz of the SystemSOC (a system constructed without a cell is saved with exclude_properties=['cell'])"""
    import tempfile
    import shutil
    from wannierberri.system.system_soc import SystemSOC
    d = tempfile.mkdtemp(prefix="c25npz", dir=env.WORK if os.path.isdir(env.WORK) else "/tmp")
    try:
        path = os.path.join(d, "soc")
        if system.cell is None and not PENDING:
            system.to_npz(path, exclude_properties=["cell"])
        else:
            system.to_npz(path)       # documented default call
            ctx.count("npz_default_call")
        if rng.random() < 0.3:
            system.to_npz(path, exclude_properties=["cell"] if system.cell is None else ())   # overwrite=True: second save into the same directory
        loaded = SystemSOC.from_npz(path)
    finally:
        shutil.rmtree(d, ignore_errors=True)
    loaded.set_pointgroup([])
    if loaded.nspin != system.nspin or not loaded.has_soc:
        ctx.violation("from_npz:nspin_or_has_soc_lost", f"nspin {system.nspin}->{loaded.nspin}, has_soc {loaded.has_soc}", wit)
    ctx.count("history_npz_roundtrip")
    return loaded


def case_soc_history(ctx, rng, idx):
    """one SystemSOC object taken through a random sequence of public calls; after every step all observables are judged against
    the reference assembly of the state the documentation implies"""
    nspin = 2 if rng.random() < 0.8 else 1
    path = "direct" if rng.random() < 0.6 else "chk"
    same_centers = bool(rng.random() < 0.5)
    periodic = (True, True, True) if rng.random() < 0.8 else (True, True, False)
    th, ph, al = random_axis(rng)
    kw = dict(theta=th, phi=ph, alpha_soc=al)
    if path == "chk":
        chk_kw = dict(extra_bands=int(rng.integers(0, 3)), give_overlap=bool(rng.random() < 0.8))
    else:
        chk_kw = None
        kw["units"] = "degrees" if rng.random() < 0.3 else "radians"
    system, info = build_soc(rng, nspin, path, same_centers, periodic, chk_kw=chk_kw, **kw)
    nops = int(rng.integers(1, 4))
    ops = [["swap", "axis", "npz", "swap_swap", "use"][int(rng.integers(5))] for _ in range(nops)]
    wit = dict(kind="soc_history", nspin=nspin, path=path, same_centers=same_centers, periodic=periodic, ops=ops,
               nw=info["num_wann_scalar"], relation=info["relation"], rmode=info["rmode"], theta=th, phi=ph, alpha_soc=al)
    centres_stale = False      # swap with channel-dependent centres: pending finding (stale reduced centres / R-vector shifts)
    for op in ops:
        if op == "use":
            monitors.warm_caches(system)
            make_data_k(system, (2, 2, 1), np.zeros(3))[0].HH_K
        elif op == "axis":
            old = (np.array(system.get_R_mat("Ham_SOC")), np.array(system.get_R_mat("SS")))
            held = (system.get_R_mat("Ham_SOC"), system.get_R_mat("SS"))
            th, ph, al = random_axis(rng)
            units = "degrees" if rng.random() < 0.3 else "radians"
            f = 180 / np.pi if units == "degrees" else 1.0
            ret = system.set_soc_axis(theta=th * f, phi=ph * f, alpha_soc=al, units=units)
            info = dict(info, theta=th, phi=ph, alpha_soc=al)
            # values handed out earlier stay valid
            ctx.close("set_soc_axis:second_call_modified_earlier_result[Ham_SOC]", held[0], old[0], rtol=0, atol=0, what="earlier Ham_SOC", witness=wit)
            ctx.close("set_soc_axis:second_call_modified_earlier_result[SS]", held[1], old[1], rtol=0, atol=0, what="earlier SS", witness=wit)
            _, Href = gen_soc.soc_ham_R_ref(info)
            ctx.close("set_soc_axis:second_call:returned_Ham_SOC!=reference_assembly", ret[0], Href, rtol=RTOL, scale=max(np.abs(Href).max(), 1e-3),
                      what="returned Ham_SOC", witness=wit)
            ctx.count("history_second_set_soc_axis")
        elif op in ("swap", "swap_swap"):
            for _ in range(2 if op == "swap_swap" else 1):
                system.swap_spin_channels()
                info = swap_info(info)
                if nspin == 2 and not same_centers:
                    centres_stale = not centres_stale
            if nspin == 2 and system.has_R_mat("Ham_SOC"):
                ctx.violation("swap_spin_channels:stale_Ham_SOC_kept", "Ham_SOC of the old channel order is still set", wit)
            call_axis = nspin == 2 or rng.random() < 0.5     # one channel: swap is a no-op that keeps Ham_SOC and SS
            if call_axis and rng.random() < 0.5:
                th, ph, al = random_axis(rng)
                info = dict(info, theta=th, phi=ph, alpha_soc=al)
            if call_axis:
                system.set_soc_axis(theta=info["theta"], phi=info["phi"], alpha_soc=info["alpha_soc"])
            ctx.count("history_swap_spin_channels" if nspin == 2 else "history_swap_one_channel")
        elif op == "npz":
            system = op_npz(ctx, rng, system, info, wit)
            centres_stale = False      # the loaded object is built from the saved centres
            if rng.random() < 0.4:
                th, ph, al = random_axis(rng)
                info = dict(info, theta=th, phi=ph, alpha_soc=al)
                system.set_soc_axis(theta=th, phi=ph, alpha_soc=al)
                ctx.count("history_set_soc_axis_after_npz")
        if centres_stale and PENDING:
            monitors.assert_no_stale_caches(ctx, system, "swap_spin_channels", wit)
        judge_soc(ctx, rng, system, info, wit, op, judge_dH=(not centres_stale) or PENDING)
    if periodic == (True, True, False):
        ctx.count("history_2D")
    ctx.nontrivial(("history", nspin, path, same_centers, periodic, tuple(ops), info["num_wann_scalar"]))
    ctx.sample(wit)


# --------------------------------------------------------------------------------------------------
def on_mesh_spectrum(ctx, rng, system, info, wit, mech):
    """set_soc_R: at the ab-initio mesh points the SOC term equals the (Wannier-gauge) input"""
    import wannierberri as wb
    nw = info["num_wann_scalar"]
    kq = info["kpt_red"]
    sel = np.arange(len(kq)) if len(kq) <= 12 else rng.choice(len(kq), 12, replace=False)
    P = gen_soc.pauli_rotated_ref(info["theta"], info["phi"])
    Hs = np.zeros((len(sel), 2 * nw, 2 * nw), dtype=complex)
    for s in (0, 1):
        for t in (0, 1):
            if info["nspin"] == 1:
                X = info["dVW_q"][(0, 0)][sel]
            elif s <= t:
                X = info["dVW_q"][(s, t)][sel]
            else:
                X = np.conj(np.swapaxes(info["dVW_q"][(t, s)][sel], 1, 2))
            Hs[:, s::2, t::2] = np.einsum("kmnc,c->kmn", X, P[s, t])
    Hs *= info["alpha_soc"]
    H0 = gen_soc.soc_H_ref(info, kq[sel], alpha_soc=0.0)
    Eq = np.linalg.eigvalsh(0.5 * (H0 + Hs + np.conj(np.swapaxes(H0 + Hs, 1, 2))))
    Eq_lib = np.array([wb.evaluate_k(system, k=k, quantities=["energy"]) for k in kq[sel]])
    ctx.close(mech, Eq_lib, Eq, rtol=RTOL, scale=max(np.abs(Eq).max(), 1.0), what="spectrum at ab-initio mesh points", witness=wit)
    if info["nspin"] == 2 and info["ovW_q"] is not None:
        # spin operator at the mesh points: off-diagonal blocks = overlap (x) P[0,1]
        d_ss = np.array(system.get_R_mat("SS"))
        S = np.array([ft(info["iRvec_soc"], d_ss, k) for k in kq[sel]])
        Sexp = np.zeros_like(S)
        for s in (0, 1):
            Sexp[:, s::2, s::2, :] = np.eye(nw)[None, :, :, None] * P[s, s][None, None, None, :]
        ov = info["ovW_q"][sel]
        Sexp[:, 0::2, 1::2, :] = ov[:, :, :, None] * P[0, 1][None, None, None, :]
        Sexp[:, 1::2, 0::2, :] = np.conj(np.swapaxes(ov, 1, 2))[:, :, :, None] * P[1, 0][None, None, None, :]
        ctx.close(mech.replace("spectrum", "spin_operator"), S, Sexp, rtol=RTOL, scale=1.0, what="S(k) at ab-initio mesh points", witness=wit)


def case_soc_R_options(ctx, rng, idx):
    """documented options of SystemSOC.set_soc_R and of the SOC container: kptirr/weights_k naming every mesh point, ws_dist_tol,
    overlap / data given as list, array or dict, SOC.select_bands of a larger band set, 2D systems"""
    from wannierberri.system.system_soc import SystemSOC
    from wannierberri.w90files.soc import SOC
    nspin = 2 if rng.random() < 0.75 else 1
    periodic = (True, True, True) if rng.random() < 0.8 else (True, True, False)
    same_centers = bool(rng.random() < 0.5)
    th, ph, al = random_axis(rng)
    captured = {}
    orig_set = SystemSOC.set_soc_R

    # the generator of vlib.gen_soc calls set_soc_R(soc, chk_up, chk_down, theta, phi, alpha_soc); this family re-issues the call on a
    # fresh SystemSOC with the options under test, using the same synthetic input
    def capture(self, soc, chk_up, chk_down=None, **kw):
        captured.update(soc=soc, chk_up=chk_up, chk_down=chk_down)
        return orig_set(self, soc, chk_up=chk_up, chk_down=chk_down, **kw)

    SystemSOC.set_soc_R = capture
    try:
        system0, info = build_soc(rng, nspin, "chk", same_centers, periodic, theta=th, phi=ph, alpha_soc=al,
                                  chk_kw=dict(extra_bands=int(rng.integers(0, 3)), give_overlap=True))
    finally:
        SystemSOC.set_soc_R = orig_set
    soc0, chk_up, chk_dn = captured["soc"], captured["chk_up"], captured["chk_down"]
    nk = chk_up.num_kpts
    nb = info["nb"]
    option = ["kptirr_all", "ws_dist_tol", "containers", "select_bands", "axis_later"][int(rng.integers(5))]
    wit = dict(kind="set_soc_R_options", option=option, nspin=nspin, periodic=periodic, same_centers=same_centers, nw=info["num_wann_scalar"],
               nb=nb, mp_grid=info["mp_grid"].tolist(), theta=th, phi=ph, alpha_soc=al)
    data = np.array([soc0.data[i] for i in range(nk)])
    overlap = np.array([soc0.overlap[i] for i in range(nk)]) if nspin == 2 else None
    kw = dict(theta=th, phi=ph, alpha_soc=al)
    soc = None
    if option == "kptirr_all":
        perm = rng.permutation(nk)
        kw.update(kptirr=perm if rng.random() < 0.5 else perm.tolist(), weights_k=np.ones(nk) if rng.random() < 0.5 else [1.0] * nk)
    elif option == "ws_dist_tol":
        kw.update(ws_dist_tol=float(10 ** rng.uniform(-9, -3)))
    elif option == "containers":
        form = int(rng.integers(3))
        d_in = [data, list(data), {int(i): data[i] for i in rng.permutation(nk)}][form]
        if nspin == 2:
            o_in = [list(overlap), {int(i): overlap[i] for i in rng.permutation(nk)}, overlap][form]
        else:
            o_in = None
        soc = SOC(data=d_in, overlap=o_in, NK=nk)
        wit["form"] = form
    elif option == "select_bands":
        # a larger band set with unrelated entries in the bands that are not selected
        nbig = nb + int(rng.integers(1, 4))
        sel_up = np.sort(rng.choice(nbig, nb, replace=False))
        sel_dn = np.sort(rng.choice(nbig, nb, replace=False)) if (nspin == 2 and rng.random() < 0.6) else sel_up
        sels = [sel_up, sel_dn]
        big = rng.normal(size=(nk, nspin, nspin, 3, nbig, nbig)) + 1j * rng.normal(size=(nk, nspin, nspin, 3, nbig, nbig))
        for s in range(nspin):
            for t in range(nspin):
                big[:, s, t][:, :, sels[s][:, None], sels[t][None, :]] = data[:, s, t]
        obig = None
        if nspin == 2:
            obig = rng.normal(size=(nk, nbig, nbig)) + 0j
            obig[:, sel_up[:, None], sel_dn[None, :]] = overlap
        soc = SOC(data=big, overlap=obig)
        if nspin == 1 or (sel_dn is sel_up and rng.random() < 0.5):
            soc.select_bands(sel_up if rng.random() < 0.5 else sel_up.tolist())
        else:
            soc.select_bands(sel_up, sel_dn)
        if soc.NB != nb:
            ctx.violation("SOC.select_bands:NB", f"NB={soc.NB}, expected {nb}", wit)
        dsel = np.array([soc.data[i] for i in range(nk)])
        ctx.close("SOC.select_bands:data!=selected_bands_of_input", dsel, data, rtol=0, atol=0, what="selected SOC data", witness=wit)
        if nspin == 2:
            osel = np.array([soc.overlap[i] for i in range(nk)])
            ctx.close("SOC.select_bands:overlap!=selected_bands_of_input", osel, overlap, rtol=0, atol=0, what="selected overlap", witness=wit)
    elif option == "axis_later":
        kw = {}         # defaults theta=0, phi=0, alpha_soc=1 - the axis is set by a later call
    if soc is None:
        soc = SOC(data=data, overlap=overlap)
    system = SystemSOC(system_up=info["system_up"], system_down=info["system_down"] if nspin == 2 else None)
    ret = system.set_soc_R(soc, chk_up=chk_up, chk_down=chk_dn, **kw)
    system.set_pointgroup([])
    if option == "axis_later":
        info0 = dict(info, theta=0.0, phi=0.0, alpha_soc=1.0)
        on_mesh_spectrum(ctx, rng, system, info0, wit, "set_soc_R[default_axis]:spectrum_on_mesh!=input")
        units = "degrees" if rng.random() < 0.5 else "radians"
        f = 180 / np.pi if units == "degrees" else 1.0
        ret = system.set_soc_axis(theta=th * f, phi=ph * f, alpha_soc=al, units=units)
    ctx.close("set_soc_R:return_value", ret[0], system.get_R_mat("Ham_SOC"), rtol=0, atol=0, what="returned Ham_SOC", witness=wit)
    # differential: the primary real-space matrices do not depend on the way the same input was handed over
    if option != "ws_dist_tol":
        for key, ref in info["mats"].items():
            got = np.array(system.get_R_mat(key))
            if got.shape != ref.shape or not np.array_equal(system.rvec.iRvec, info["iRvec_soc"]):
                ctx.violation(f"set_soc_R[{option}]:R_set_differs_from_plain_call", f"{key}: {got.shape} vs {ref.shape}", wit)
            else:
                ctx.close(f"set_soc_R[{option}]:{key}!=plain_call", got, ref, rtol=RTOL, scale=max(np.abs(ref).max(), 1e-3), what=key, witness=wit)
    info = dict(info, iRvec_soc=np.array(system.rvec.iRvec),
                mats={k: np.array(system.get_R_mat(k)) for k in info["mats"]})
    on_mesh_spectrum(ctx, rng, system, info, wit, f"set_soc_R[{option}]:spectrum_on_mesh!=input")
    judge_soc(ctx, rng, system, info, wit, f"set_soc_R[{option}]")
    ctx.count(f"soc_R_option_{option}")
    if periodic == (True, True, False):
        ctx.count("soc_R_2D")
    ctx.nontrivial(("socR", option, nspin, periodic, info["num_wann_scalar"], nb, tuple(info["mp_grid"].tolist())))
    ctx.sample(wit)


def case(ctx, rng, idx, state):
    [case_double_spin, case_soc_union, case_get_system_R, case_pauli, case_soc_history, case_soc_R_options][idx % 6](ctx, rng, idx)


if __name__ == "__main__":
    harness.main(
        PROP, "exploration", case, setup_fn=setup,
        tiers=dict(quick=dict(cases=960, shards=8, time=900), thorough=dict(cases=9600, shards=16, time=3000)),
        rule="six families (idx%6): double_spin of random Hermitian models (1-5 WFs, with/without AA); SystemSOC with "
             "alpha_soc=0 / no SOC matrices / alpha_soc!=0 for up/down R sets equal, permuted, nested, overlapping "
             "(cycled), SOC matrices set directly on an up/down/union/own R set or through set_soc_R with a synthetic "
             "SOC object + check-point stand-in; get_system_R vs Data_K_soc on random shifted FFT grids; rotated Pauli "
             "matrices at random/special angles, degrees flag; one SystemSOC taken through 1-3 public calls (swap_spin_channels, second "
             "set_soc_axis, to_npz/from_npz, swap twice, use) and judged after each (spectrum, HH_K, SS, dH/dk, get_system_R), 3D and 2D; "
             "set_soc_R with kptirr/weights_k naming all mesh points, ws_dist_tol, list/array/dict containers, SOC.select_bands, axis set "
             "later. A case is distinct by (family, R-set relation, variant, "
             "nspin, num_wann, path, SOC R-set mode)",
        assumptions=["reference H(k), S(k) assembled in the harness from the primary real-space matrices "
                     "(vlib/gen_soc.py) with independently written rotated Pauli matrices",
                     "eigenvalues by numpy LAPACK on both sides; tolerance 1e-10 of the band-structure scale",
                     "spin checks inside doubled levels only when the spinless levels are separated by > 1e-6 (tie guard)"],
        required_counters=("double_spin_spectrum", "double_spin_spin", "soc_union_equal", "soc_union_permuted",
                           "soc_union_nested", "soc_union_overlapping", "soc_variant_alpha0", "soc_via_set_soc_R",
                           "get_system_R", "get_system_R_permuted", "get_system_R_nested", "pauli_rotated", "units_flag",
                           "history_swap_spin_channels", "history_second_set_soc_axis", "history_npz_roundtrip",
                           "history_set_soc_axis_after_npz", "history_dH_judged", "history_2D", "soc_R_option_kptirr_all",
                           "soc_R_option_ws_dist_tol", "soc_R_option_containers", "soc_R_option_select_bands",
                           "soc_R_option_axis_later", "soc_R_2D"),
    )
