"""C15 - degenerate multiplets are never split (REF + INV).

Oracle: blocks = connected components of "gap <= thresh" of the sorted band energies
(vlib.oracles.components; strict "gap < thresh" for the window selection, which is what
"closer than its threshold" says) and set algebra over whole components:

  get_borders / get_bands_in_range(_groups) : the blocks are exactly the components (exact ties gap == thresh
        are internal - the property says "at most"); with Kramers degeneracy (even number of bands) the
        boundaries are the even component boundaries; in-range groups = all blocks that intersect the range,
        Fermi-sea group = all blocks entirely below it
  find_degen                                : the components (threshold ties guarded)
  select_window_degen                       : include_degen=True -> all strict components that intersect the
        window, False -> all strict components contained in it; both return modes; threshold ties guarded,
        a band exactly on a window edge may count as inside or outside (any consistent choice is accepted,
        the multiplet must still not be split)
  Tabulator                                 : values equal inside every block, Energy = block mean of an
        independent diagonalisation, also through wannierberri.run (TabulatorAll)
  wannierise                                : M-window - a wrapper around the name `select_window_degen`
        inside wannierisation/wannierise.py checks every frozen / outer window of a real disentanglement

In-situ M-borders: wrapper around tetrahedron.get_borders (looked up at call time by get_bands_in_range,
which Data_K imports at call time) asserts contiguity, cover, inner gaps <= thresh < outer gaps, parity.
"""
import os
import shutil
import sys
import tempfile
import warnings

sys.path.insert(0, os.path.dirname(os.path.dirname(os.path.abspath(__file__))))
from vlib import env, harness, gen_systems, oracles  # noqa: E402
import numpy as np  # noqa: E402

PROP = "C15"


# ----------------------------------------------------------------------------------------------
#  oracle helpers
# ----------------------------------------------------------------------------------------------

def has_thresh_tie(E, thresh, which="any"):
    """a gap so close to the threshold that '<' / '<=' or a differently rounded gap could decide.
    which = 'exact' : gap == thresh exactly;  'near' : within the guard but not equal;  'any' : either"""
    E = np.asarray(E, dtype=float)
    if len(E) < 2:
        return False
    gaps = np.diff(E)
    exact = gaps == thresh
    if which == "exact":
        return bool(np.any(exact))
    guard = 1e-9 * (1.0 + float(np.max(np.abs(E))))
    near = (np.abs(gaps - thresh) <= guard) & ~exact
    if which == "near":
        return bool(np.any(near))
    return bool(np.any(near | exact))


def kramers_blocks(E, thresh):
    """boundaries = component boundaries that fall on even indices (even number of bands)"""
    comps = oracles.components(E, thresh)
    borders = sorted({c[0] for c in comps if c[0] % 2 == 0} | {len(E)})
    return [(a, b) for a, b in zip(borders, borders[1:])]


def blocks_oracle(E, thresh, kramers):
    return kramers_blocks(E, thresh) if kramers else oracles.components(E, thresh)


def check_block_invariants(ctx, mech, E, blocks, thresh, kramers, wit):
    """structural statement of the property, checked directly on what the code returned"""
    E = np.asarray(E, dtype=float)
    n = len(E)
    ctx.ev()
    blocks = [(int(a), int(b)) for a, b in blocks]
    ok = len(blocks) > 0 and blocks[0][0] == 0 and blocks[-1][1] == n and all(b > a for a, b in blocks) and \
        all(blocks[i][1] == blocks[i + 1][0] for i in range(len(blocks) - 1))
    if n == 0:
        ok = True
    if not ok:
        ctx.violation(mech + ":blocks_not_contiguous_cover", f"blocks {blocks} of {n} bands", wit)
        return False
    bset = {a for a, b in blocks}
    for i in range(1, n):
        gap = E[i] - E[i - 1]
        if i in bset:
            if not gap > thresh:
                ctx.violation(mech + ":boundary_gap_not_larger_than_thresh", f"boundary at {i}, gap {gap!r} thresh {thresh!r}", wit)
                return False
            if kramers and i % 2:
                ctx.violation(mech + ":odd_Kramers_boundary", f"boundary at odd index {i}", wit)
                return False
        else:
            if gap > thresh and (not kramers or i % 2 == 0):
                ctx.violation(mech + ":inner_gap_larger_than_thresh", f"no boundary at {i}, gap {gap!r} thresh {thresh!r}", wit)
                return False
    return True


def window_expected(E, thresh, win_min, win_max, include_degen, closed_lo=True, closed_hi=True):
    E = np.asarray(E, dtype=float)
    lo = (E >= win_min) if closed_lo else (E > win_min)
    hi = (E <= win_max) if closed_hi else (E < win_max)
    inside = lo & hi
    out = np.zeros(len(E), dtype=bool)
    for a, b in oracles.components(E, thresh, strict=True):
        if include_degen:
            if np.any(inside[a:b]):
                out[a:b] = True
        else:
            if np.all(inside[a:b]):
                out[a:b] = True
    return out


# ----------------------------------------------------------------------------------------------
#  generators of sorted band arrays
# ----------------------------------------------------------------------------------------------

def gen_array(rng):
    """sorted energies made of multiplets (sizes 1-6) and the threshold that defines them"""
    mode = ["float", "float", "float", "integer", "zero_thresh", "default"][int(rng.integers(6))]
    nm = int(rng.integers(1, 6))
    sizes = [int(rng.integers(1, 7)) if rng.random() < 0.6 else 1 for _ in range(nm)]
    if mode == "integer":
        # exact arithmetic: integer energies, integer threshold; gap == thresh ties on purpose
        thresh = float(rng.integers(0, 4))
        E = [float(rng.integers(-20, 20))]
        for im, s in enumerate(sizes):
            for j in range(s - 1):
                E.append(E[-1] + float(rng.integers(0, int(thresh) + 1)))
            if im < nm - 1:
                E.append(E[-1] + thresh + float(rng.integers(1, 5)))
        return np.array(E), thresh, mode
    if mode == "zero_thresh":
        thresh = 0.0
    elif mode == "default":
        thresh = 1e-2
    else:
        thresh = float(10 ** rng.uniform(-8, 0))
    scale = [1.0, 1.0, 10.0, 100.0][int(rng.integers(4))]
    unit = thresh if thresh > 0 else 1e-3
    E = [float(rng.uniform(-1, 1) * scale)]
    for im, s in enumerate(sizes):
        for j in range(s - 1):
            frac = [0.0, 0.0, 0.1, 0.5, 0.9][int(rng.integers(5))]       # inner gaps: exact or below thresh
            E.append(E[-1] + frac * thresh)
        if im < nm - 1:
            E.append(E[-1] + unit * [1.1, 2.0, 10.0, 1e3][int(rng.integers(4))] + (0.0 if thresh > 0 else 0.0))
    return np.array(E), thresh, mode


def gen_window(rng, E, thresh):
    """window edges: between bands, inside multiplets, on band energies (edge ties), outside, infinite, empty"""
    n = len(E)
    lo, hi = float(E.min()), float(E.max())
    span = max(hi - lo, 1.0)

    def edge():
        r = rng.random()
        if r < 0.35 and n > 1:                       # between two neighbouring bands (cuts a multiplet or not)
            i = int(rng.integers(n - 1))
            return float(E[i] + (E[i + 1] - E[i]) * rng.uniform(0.2, 0.8))
        if r < 0.5:                                  # exactly on a band
            return float(E[int(rng.integers(n))])
        if r < 0.6:
            return float(-np.inf if rng.random() < 0.5 else np.inf)
        if r < 0.75:
            return float(lo - span * rng.uniform(0.1, 2)) if rng.random() < 0.5 else float(hi + span * rng.uniform(0.1, 2))
        return float(rng.uniform(lo - 0.1 * span, hi + 0.1 * span))
    a, b = edge(), edge()
    if rng.random() < 0.9 and a > b:
        a, b = b, a
    return a, b


# ----------------------------------------------------------------------------------------------
#  kind 1 : arrays
# ----------------------------------------------------------------------------------------------

def arrays_one(ctx, rng, state):
    T, U = state["T"], state["U"]
    E, thresh, mode = gen_array(rng)
    n = len(E)
    wit = dict(E=E, thresh=thresh, mode=mode)
    # exact ties gap == thresh are pinned by the property ("at most" -> internal) for the band groups;
    # gaps that differ from the threshold by rounding only are not judged
    tie = has_thresh_tie(E, thresh, "near")
    comps = oracles.components(E, thresh)
    sizes = sorted(b - a for a, b in comps)

    # ---------------- get_borders ------------------------------------------------------------
    if tie:
        ctx.count("skipped_threshold_tie")
    else:
        for kr in (False, True):
            if kr and n % 2:
                continue
            got = T.get_borders(E, thresh, degen_Kramers=kr)
            got_t = [(int(a), int(b)) for a, b in got]
            check_block_invariants(ctx, "get_borders", E, got_t, thresh, kr, dict(wit, Kramers=kr, got=got_t))
            ctx.ev()
            exp = blocks_oracle(E, thresh, kr)
            if got_t != exp:
                ctx.violation("get_borders!=components", f"got {got_t} expected {exp}", dict(wit, Kramers=kr))
            ctx.count("get_borders_Kramers" if kr else "get_borders")
        got = T.get_borders(E, -1)
        ctx.ev()
        if [tuple(x) for x in got] != [(i, i + 1) for i in range(n)]:
            ctx.violation("get_borders[thresh<0]!=single_bands", f"got {got}", wit)

        # ---------------- find_degen --------------------------------------------------------
        if not has_thresh_tie(E, thresh, "exact"):
            got = [(int(a), int(b)) for a, b in U.find_degen(E, thresh)]
            ctx.ev()
            ctx.count("find_degen")
            if got != comps:
                ctx.violation("find_degen!=components", f"got {got} expected {comps}", wit)

        # ---------------- get_bands_in_range ------------------------------------------------
        for _ in range(2):
            emin, emax = gen_window(rng, E, thresh)
            kr = bool(n % 2 == 0 and rng.random() < 0.3)
            use_minmax = rng.random() < 0.4
            if use_minmax:
                w = np.abs(rng.normal(size=n)) * max(thresh, 1e-3) * 3
                Emin, Emax = E - w, E + np.abs(rng.normal(size=n)) * max(thresh, 1e-3) * 3
            else:
                Emin, Emax = E, E
            sel = None
            if rng.random() < 0.3:
                sel = np.sort(rng.choice(n, size=int(rng.integers(1, n + 1)), replace=False))
            edge_tie = bool(np.any(Emax == emin) or np.any(Emin == emax))
            got = T.get_bands_in_range(emin, emax, E, degen_thresh=thresh, degen_Kramers=kr,
                                       Ebandmin=Emin if use_minmax else None, Ebandmax=Emax if use_minmax else None,
                                       select_bands=sel)
            got_t = [(int(a), int(b)) for a, b in got]
            blocks = blocks_oracle(E, thresh, kr)
            w2 = dict(wit, emin=emin, emax=emax, Kramers=kr, select_bands=sel, got=got_t,
                      Ebandmin=Emin if use_minmax else None, Ebandmax=Emax if use_minmax else None)
            ctx.ev()
            ctx.count("get_bands_in_range")
            if not set(got_t) <= set(blocks) or got_t != sorted(got_t):
                ctx.violation("get_bands_in_range:not_whole_blocks", f"got {got_t}, blocks {blocks}", w2)
                continue
            for a, b in blocks:
                if sel is not None and not (set(range(a, b)) & set(int(i) for i in sel)):
                    expect = False
                else:
                    strictly = Emax[a:b].max() > emin and Emin[a:b].min() < emax
                    weakly = Emax[a:b].max() >= emin and Emin[a:b].min() <= emax
                    if strictly != weakly:
                        continue          # block touches the range edge exactly: either answer keeps it whole
                    expect = weakly
                if ((a, b) in got_t) != expect:
                    ctx.violation("get_bands_in_range!=blocks_intersecting_range",
                                  f"block {(a, b)} in result: {(a, b) in got_t}, expected {expect}", w2)
                    break
            if edge_tie:
                ctx.count("range_edge_on_band")

    # ---------------- select_window_degen ------------------------------------------------------
    if has_thresh_tie(E, thresh):
        ctx.count("skipped_threshold_tie_window")
    else:
        comps_s = oracles.components(E, thresh, strict=True)
        for _ in range(3):
            wmin, wmax = gen_window(rng, E, thresh)
            for inc in (False, True):
                kw = dict(thresh=thresh, win_min=wmin, win_max=wmax, include_degen=inc)
                if mode == "default" and rng.random() < 0.5:
                    kw.pop("thresh")                     # the default threshold 1e-2
                got = U.select_window_degen(E.copy(), **kw)
                got = np.asarray(got)
                w2 = dict(wit, win_min=wmin, win_max=wmax, include_degen=inc, got=got)
                ctx.ev()
                ctx.count("select_window_degen")
                if got.dtype != bool or got.shape != E.shape:
                    ctx.violation("select_window_degen:bad_return_type", f"dtype {got.dtype} shape {got.shape}", w2)
                    continue
                # never split (the statement itself)
                split = [c for c in comps_s if 0 < got[c[0]:c[1]].sum() < c[1] - c[0]]
                if split:
                    ctx.violation("select_window_degen:multiplet_split", f"components {split} split: {got.astype(int)}", w2)
                    continue
                edge_tie = bool(np.any(E == wmin) or np.any(E == wmax))
                exps = [window_expected(E, thresh, wmin, wmax, inc)]
                if edge_tie:
                    exps += [window_expected(E, thresh, wmin, wmax, inc, cl, ch)
                             for cl in (True, False) for ch in (True, False)]
                    ctx.count("window_edge_on_band")
                if not any(np.array_equal(got, e) for e in exps):
                    ctx.violation("select_window_degen!=whole_components_of_window",
                                  f"got {got.astype(int)} expected {exps[0].astype(int)}", w2)
                    continue
                idx = U.select_window_degen(E.copy(), return_indices=True, **kw)
                ctx.ev()
                if [int(i) for i in idx] != [int(i) for i in np.where(got)[0]]:
                    ctx.violation("select_window_degen:return_indices!=mask", f"indices {idx} mask {got.astype(int)}", w2)
                cutting = [c for c in comps_s if c[1] - c[0] > 1 and
                           0 < ((E[c[0]:c[1]] >= wmin) & (E[c[0]:c[1]] <= wmax)).sum() < c[1] - c[0]]
                if cutting:
                    ctx.count("window_cuts_multiplet")
                    ctx.nontrivial(("window", n, tuple(sizes), mode, inc, max(c[1] - c[0] for c in cutting),
                                    cutting[0][0] == 0, cutting[-1][1] == n))
    if max(sizes) > 1 and not tie:
        ctx.nontrivial(("blocks", n, tuple(sizes), mode))
    return wit


def case_arrays(ctx, rng, state):
    U = state["U"]
    for j in range(60 if ctx.thorough else 40):
        wit = arrays_one(ctx, rng, state)
        if j == 0:
            ctx.sample(wit)
    # the documented defaults: empty window
    E = np.sort(rng.normal(size=5))
    got = U.select_window_degen(E)
    ctx.ev()
    if np.any(got):
        ctx.violation("select_window_degen:default_window_not_empty", f"{got}", dict(E=E))
    # the witness of the repaired defect F7 stays in the regression set
    E = np.array([0.0, 0.001, 0.002, 1.0])
    got = U.select_window_degen(E, win_min=-np.inf, win_max=0.0015, include_degen=False)
    ctx.ev()
    if np.any(got):
        ctx.violation("select_window_degen:multiplet_split", f"F7 witness: {got}", dict(E=E, win_max=0.0015))


# ----------------------------------------------------------------------------------------------
#  kind 2 : Data_K groups, Tabulator, run() with M-borders
# ----------------------------------------------------------------------------------------------

class BordersMonitor:
    """M-borders: every call of tetrahedron.get_borders in a real workload"""

    def __init__(self, orig):
        self.orig = orig
        self.ctx = None

    def __call__(self, A, degen_thresh, degen_Kramers=False):
        res = self.orig(A, degen_thresh, degen_Kramers=degen_Kramers)
        ctx = self.ctx
        if ctx is not None:
            ctx.count("monitor_get_borders_calls")
            A = np.asarray(A, dtype=float)
            if not (degen_Kramers and len(A) % 2):
                check_block_invariants(ctx, "M-borders", A, res, degen_thresh, degen_Kramers,
                                       dict(E=A, thresh=degen_thresh, Kramers=degen_Kramers, got=res, insitu=True))
        return res


def gen_deg_system(rng):
    """G-deg: H(R) (x) 1_m plus an on-site splitting of the copies (bands E_n(k) + delta_s exactly),
    or a generic model with a threshold so large that bands group accidentally"""
    mode = ["copies_exact", "copies_chain", "copies_split", "generic_large_thresh", "kramers"][int(rng.integers(5))]
    nb0 = int(rng.integers(1, 4))
    base = gen_systems.herm_system(rng, num_wann=nb0, radius=rng.uniform(1.0, 1.8),
                                   centers=["random", "zero"][int(rng.integers(2))])
    lo, hi, bw = gen_systems.bandwidth(base)
    thresh = float(10 ** rng.uniform(-6, -3))
    kram = False
    if mode == "generic_large_thresh":
        m = int(rng.integers(1, 3))
        delta = np.arange(m) * rng.uniform(0.01, 0.1) * (hi - lo)
        thresh = float(rng.uniform(0.03, 0.25) * (hi - lo))
    elif mode == "kramers":
        m = 2
        delta = np.array([0.0, 0.0 if rng.random() < 0.6 else 0.3 * thresh])
        kram = True
        if rng.random() < 0.5:
            thresh = -1.0
    else:
        m = int(rng.integers(2, 4))
        step = {"copies_exact": 0.0, "copies_chain": 0.6 * thresh, "copies_split": 3.0 * thresh}[mode]
        delta = np.arange(m) * step
    Ham = base.get_R_mat("Ham")
    iR = base.rvec.iRvec
    H2 = np.array([np.kron(h, np.eye(m)) for h in Ham])
    i0 = iR.tolist().index([0, 0, 0])
    H2[i0] += np.kron(np.eye(nb0), np.diag(delta))
    cen = np.repeat(base.wannier_centers_red, m, axis=0)
    system = gen_systems.make_system(base.real_lattice, iR, {"Ham": H2}, cen)
    return system, dict(mode=mode, nb0=nb0, copies=m, delta=delta, thresh=thresh, Kramers=kram, band_range=(lo, hi))


def expected_groups(E, emin, emax, thresh, kram, sea):
    blocks = blocks_oracle(E, thresh, kram)
    exp = {}
    for a, b in blocks:
        if E[a:b].max() >= emin and E[a:b].min() <= emax:
            exp[(a, b)] = float(np.mean(E[a:b]))
    if sea:
        below = [(a, b) for a, b in blocks if E[a:b].max() < emin]
        if below:
            # all blocks entirely below the range, as one group starting at band 0
            exp[(0, max(b for a, b in below))] = -np.inf
    return exp


def case_datak(ctx, rng, state):
    import wannierberri as wb
    from wannierberri import calculators as calc
    from wannierberri.grid import Grid
    from wannierberri.grid.Kpoint import KpointBZparallel
    from wannierberri.data_K.data_K_R import Data_K_R
    mon = state["borders_monitor"]
    system, info = gen_deg_system(rng)
    nb = system.num_wann
    thresh, kram = info["thresh"], info["Kramers"]
    lo, hi = info["band_range"]
    NK = tuple(int(x) for x in rng.integers(1, 4, size=3))
    dK = rng.uniform(0, 1, 3) / np.array(NK)
    wit = dict(info, NK=NK, dK=dK, nb=nb)
    grid = Grid(system, NKdiv=1, NKFFT=NK, use_symmetry=False)
    Kp = KpointBZparallel(K=dK * np.array(NK), dK=np.ones(3), NKFFT=np.array(NK), factor=1.0,
                          pointgroup=grid.pointgroup, refinement_level=0)
    data = Data_K_R(system, dK=Kp.Kp_fullBZ, grid=grid, Kpoint=Kp, fftlib=["fftw", "numpy"][int(rng.integers(2))])
    E = np.array(data.E_K)
    nk = E.shape[0]
    Eind = gen_systems.bands(system, data.kpoints_all)
    scale = max(hi - lo, 1e-3) + float(np.max(info["delta"]))
    ctx.close("Data_K.E_K!=independent_bands", E, Eind, rtol=1e-9, scale=scale, what="E_K", witness=wit)
    guard = 1e-9 * (1.0 + float(np.max(np.abs(E))))        # E_K and the independent bands differ by rounding:
    good_k = [ik for ik in range(nk)                         # stay away from the threshold on both
              if not np.any(np.abs(np.diff(E[ik]) - thresh) <= guard) and not np.any(np.abs(np.diff(Eind[ik]) - thresh) <= guard)]
    if len(good_k) < nk:
        ctx.count("skipped_threshold_tie_k", nk - len(good_k))

    mon.ctx = ctx
    try:
        # ---- get_bands_in_range_groups (what static / dynamic calculators use) ---------------------
        for _ in range(3):
            emin, emax = np.sort(rng.uniform(lo - 0.1 * scale, hi + 0.1 * scale, 2))
            if rng.random() < 0.2:
                emin = -np.inf
            if rng.random() < 0.2:
                emax = np.inf
            sea = bool(rng.random() < 0.6)
            got_all = data.get_bands_in_range_groups(emin, emax, degen_thresh=thresh, degen_Kramers=kram, sea=sea)
            for ik in good_k:
                got = {(int(a), int(b)): float(v) for (a, b), v in got_all[ik].items()}
                exp = expected_groups(E[ik], emin, emax, thresh, kram, sea)
                w2 = dict(wit, ik=ik, E=E[ik], emin=emin, emax=emax, sea=sea, got=sorted(got), expected=sorted(exp))
                ctx.ev()
                ctx.count("get_bands_in_range_groups")
                if set(got) != set(exp):
                    ctx.violation("get_bands_in_range_groups!=whole_blocks", f"got {sorted(got)} expected {sorted(exp)}", w2)
                    continue
                for key in exp:
                    if np.isfinite(exp[key]):
                        ctx.close("get_bands_in_range_groups:energy!=block_mean", got[key], exp[key], rtol=1e-12,
                                  scale=scale, what=f"group {key}", witness=w2)
                    elif got[key] != -np.inf:
                        ctx.violation("get_bands_in_range_groups:sea_value", f"{got[key]}", w2)
                if sea and any(not np.isfinite(v) for v in exp.values()) and len(exp) > 1:
                    ctx.count("sea_group_next_to_range_group")

        # ---- Tabulator: equal inside blocks, Energy = block mean -------------------------------------
        nsel = int(rng.integers(1, nb + 1))
        ibands = np.sort(rng.choice(nb, size=nsel, replace=False)) if rng.random() < 0.6 else None
        ib_list = list(range(nb)) if ibands is None else [int(i) for i in ibands]
        tabs = {"Energy": calc.tabulate.Energy(degen_thresh=thresh, degen_Kramers=kram, ibands=ibands),
                "Velocity": calc.tabulate.Velocity(degen_thresh=thresh, degen_Kramers=kram, ibands=ibands),
                "BerryCurvature": calc.tabulate.BerryCurvature(degen_thresh=thresh, degen_Kramers=kram, ibands=ibands,
                                                               kwargs_formula={"external_terms": False})}
        twin = {"Velocity": calc.tabulate.Velocity(degen_thresh=-1, ibands=ibands),
                "BerryCurvature": calc.tabulate.BerryCurvature(degen_thresh=-1, ibands=ibands,
                                                               kwargs_formula={"external_terms": False})}
        for name, tab in tabs.items():
            out = np.asarray(tab(data).data)
            out = out.reshape(nk, len(ib_list), -1)
            # natural scale: the same quantity band by band (not the grouped value being judged)
            nat = scale if name == "Energy" else max(float(np.max(np.abs(np.asarray(twin[name](data).data)))), 1e-6)
            for ik in good_k:
                blocks = blocks_oracle(Eind[ik], thresh, kram)
                for a, b in blocks:
                    members = [j for j, ib in enumerate(ib_list) if a <= ib < b]
                    if not members:
                        continue
                    w2 = dict(wit, ik=ik, E=E[ik], block=(a, b), ibands=ib_list, tabulator=name)
                    if name == "Energy":
                        ctx.close("Tabulator.Energy!=block_mean", out[ik, members, 0],
                                  np.full(len(members), Eind[ik, a:b].mean()), rtol=1e-9, scale=nat,
                                  what=f"Energy of block {(a, b)}", witness=w2)
                    if len(members) > 1:
                        ctx.close(f"Tabulator.{name}:differs_inside_block", out[ik, members],
                                  np.broadcast_to(out[ik, members[0]], out[ik, members].shape), rtol=1e-9, scale=nat,
                                  what=f"{name} inside block {(a, b)}", witness=w2)
                        ctx.count("tabulator_blocks_with_several_bands")
            ctx.count("tabulator_" + name)
        nmulti = sum(1 for ik in good_k for a, b in blocks_oracle(Eind[ik], thresh, kram) if b - a > 1)

        # ---- the same through wannierberri.run (TabulatorAll) with the monitors on ------------------
        if rng.random() < (0.5 if ctx.thorough else 0.35):
            tmp = tempfile.mkdtemp(prefix="c15_", dir=env.WORK if os.path.isdir(env.WORK) else "/tmp")
            try:
                nkdiv = tuple(int(x) for x in rng.integers(1, 3, 3))
                g2 = Grid(system, NKdiv=nkdiv, NKFFT=NK)
                Ef = np.linspace(lo - 0.05 * scale, hi + 0.05 * scale, 7)
                calcs = {"tab": calc.TabulatorAll({"Energy": calc.tabulate.Energy(degen_thresh=thresh, degen_Kramers=kram),
                                                   "E0": calc.tabulate.Energy(degen_thresh=-1),
                                                   "V": calc.tabulate.Velocity(degen_thresh=thresh, degen_Kramers=kram),
                                                   "V0": calc.tabulate.Velocity(degen_thresh=-1)},
                                                  mode="grid", ibands=ibands),
                         "cumdos": calc.static.CumDOS(Efermi=Ef, tetra=False, degen_thresh=thresh, degen_Kramers=kram)}
                res = wb.run(system, grid=g2, calculators=calcs, parallel=False, fout_name=os.path.join(tmp, "res"),
                             suffix="", restart=False, print_progress_step_time=1e9)
                tab = res.results["tab"]
                kpts = np.asarray(tab.kpoints)
                Erun = gen_systems.bands(system, kpts)
                E0 = np.asarray(tab.results["E0"].data)
                Eg = np.asarray(tab.results["Energy"].data)
                V = np.asarray(tab.results["V"].data).reshape(len(kpts), len(ib_list), -1)
                natV = max(float(np.max(np.abs(np.asarray(tab.results["V0"].data)))), 1e-6)
                ctx.close("run:Tabulator.Energy[thresh<0]!=independent_bands", E0, Erun[:, ib_list], rtol=1e-9, scale=scale,
                          what="raw tabulated energies", witness=wit)
                for ik in range(len(kpts)):
                    if has_thresh_tie(Erun[ik], thresh):
                        continue
                    for a, b in blocks_oracle(Erun[ik], thresh, kram):
                        members = [j for j, ib in enumerate(ib_list) if a <= ib < b]
                        if not members:
                            continue
                        w2 = dict(wit, k=kpts[ik], E=Erun[ik], block=(a, b), ibands=ib_list, through="run")
                        ctx.close("Tabulator.Energy!=block_mean", Eg[ik, members], np.full(len(members), Erun[ik, a:b].mean()),
                                  rtol=1e-9, scale=scale, what=f"run: Energy of block {(a, b)}", witness=w2)
                        if len(members) > 1:
                            ctx.close("Tabulator.Velocity:differs_inside_block", V[ik, members],
                                      np.broadcast_to(V[ik, members[0]], V[ik, members].shape), rtol=1e-9, scale=natV,
                                      what=f"run: Velocity inside block {(a, b)}", witness=w2)
                ctx.count("run_TabulatorAll")
            finally:
                shutil.rmtree(tmp, ignore_errors=True)
    finally:
        mon.ctx = None
    if nmulti > 0:
        ctx.nontrivial(("datak", info["mode"], info["nb0"], info["copies"], NK, kram, thresh < 0,
                        None if ibands is None else tuple(ib_list)))
    ctx.sample(dict(wit, E_first_k=E[0]))


# ----------------------------------------------------------------------------------------------
#  kind 3 : wannierise with M-window
# ----------------------------------------------------------------------------------------------

class WindowMonitor:
    """M-window: wrapper installed under the name wannierise.py uses (`from ..utility import select_window_degen`)"""

    def __init__(self, orig):
        self.orig = orig
        self.ctx = None

    def __call__(self, E, *args, **kwargs):
        res = self.orig(E, *args, **kwargs)
        ctx = self.ctx
        if ctx is None:
            return res
        ctx.count("monitor_window_calls")
        names = ("thresh", "win_min", "win_max", "include_degen", "return_indices")
        kw = dict(thresh=1e-2, win_min=np.inf, win_max=-np.inf, include_degen=False, return_indices=False)
        kw.update(dict(zip(names, args)))
        kw.update(kwargs)
        E = np.asarray(E, dtype=float)
        if np.any(np.diff(E) < 0):
            ctx.count("monitor_window_unsorted_input")
            return res
        if has_thresh_tie(E, kw["thresh"]):
            ctx.count("monitor_window_skipped_tie")
            return res
        got = np.zeros(len(E), dtype=bool)
        if kw["return_indices"]:
            got[[int(i) for i in res]] = True
        else:
            got = np.asarray(res, dtype=bool)
        exps = [window_expected(E, kw["thresh"], kw["win_min"], kw["win_max"], kw["include_degen"], cl, ch)
                for cl in (True, False) for ch in (True, False)]
        if not (np.any(E == kw["win_min"]) or np.any(E == kw["win_max"])):
            exps = exps[:1]
        ctx.ev()
        comps = oracles.components(E, kw["thresh"], strict=True)
        inside = (E >= kw["win_min"]) & (E <= kw["win_max"])
        if any(c[1] - c[0] > 1 and 0 < inside[c[0]:c[1]].sum() < c[1] - c[0] for c in comps):
            ctx.count("monitor_window_cuts_multiplet")
        if not any(np.array_equal(got, e) for e in exps):
            ctx.violation("M-window:select_window_degen!=whole_components_of_window",
                          f"inside wannierise: got {got.astype(int)} expected {exps[0].astype(int)}",
                          dict(E=E, **{k: v for k, v in kw.items()}, insitu=True))
        return res


def case_wannierise(ctx, rng, state):
    from wannierberri.w90files import WannierData, EIG, MMN, AMN
    from wannierberri.w90files.bkvectors import BKVectors
    mon = state["window_monitor"]
    nb0 = int(rng.integers(2, 4))
    m = int(rng.integers(2, 4))
    base = gen_systems.herm_system(rng, num_wann=nb0, radius=rng.uniform(1.0, 1.6), centers="zero")
    lat = base.real_lattice
    recip = 2 * np.pi * np.linalg.inv(lat).T
    mp = tuple(int(x) for x in rng.integers(2, 4, size=3))
    kpts = np.array([(i / mp[0], j / mp[1], k / mp[2]) for i in range(mp[0]) for j in range(mp[1]) for k in range(mp[2])])
    kpts = kpts[rng.permutation(len(kpts))]
    try:
        with warnings.catch_warnings():
            warnings.simplefilter("ignore")
            bk = BKVectors.from_kpoints(recip_lattice=recip, mp_grid=mp, kpoints_red=kpts)
    except RuntimeError:
        raise harness.Skip("no b-vector shells for this lattice")      # property C22, not this one
    Ham = base.get_R_mat("Ham")
    iR = base.rvec.iRvec
    step = float(rng.uniform(0.1, 0.7)) * 1e-2                   # default thresh of the windows is 1e-2
    delta = np.arange(m) * step                                   # chain multiplets of m bands
    NB = nb0 * m

    def HU(k):
        H = np.einsum("r,rab->ab", np.exp(2j * np.pi * (iR @ k)), Ham)
        H = 0.5 * (H + H.conj().T)
        H = np.kron(H, np.eye(m)) + np.kron(np.eye(nb0), np.diag(delta))
        return np.linalg.eigh(H)
    EU = [HU(k) for k in kpts]
    Eall = np.array([e for e, u in EU])
    NK = len(kpts)
    # frozen window: the upper edge cuts the lowest multiplet of one k-point; outer window: the upper edge cuts the
    # highest multiplet of some k-point; in half of the cases the lower edges of both cut a multiplet too
    ik0 = int(rng.integers(NK))
    j = int(rng.integers(0, m - 1))
    froz_max = float(0.5 * (Eall[ik0, j] + Eall[ik0, j + 1]))
    if rng.random() < 0.5:
        froz_max = float(np.quantile(Eall[:, :NB // 2 + 1], rng.uniform(0.2, 0.9)))     # generic position
    ik1 = int(rng.integers(NK))
    j1 = NB - m + int(rng.integers(0, m - 1))
    outer_max = float(0.5 * (Eall[ik1, j1] + Eall[ik1, j1 + 1])) if rng.random() < 0.7 else np.inf
    if rng.random() < 0.5:
        ik2 = int(rng.integers(NK))
        j2 = int(rng.integers(0, m - 1))
        outer_min = float(0.5 * (Eall[ik2, j2] + Eall[ik2, j2 + 1]))
        froz_min = outer_min
    else:
        outer_min = -np.inf
        froz_min = -np.inf if rng.random() < 0.5 else float(Eall.min() - 1.0)
    if not (outer_min <= froz_min < froz_max <= outer_max):
        raise harness.Skip("windows not nested")
    # domain of wannierise: frozen <= num_wann <= selected at every k-point (sized with the oracle)
    nfroz = max(int(window_expected(Eall[ik], 1e-2, froz_min, froz_max, False).sum()) for ik in range(NK))
    nsel = min(int(window_expected(Eall[ik], 1e-2, outer_min, outer_max, True).sum()) for ik in range(NK))
    if any(has_thresh_tie(Eall[ik], 1e-2) for ik in range(NK)):
        raise harness.Skip("tie")
    if max(nfroz, 1) > nsel:
        raise harness.Skip("frozen window would hold more bands than the outer window somewhere")
    NW = int(rng.integers(max(nfroz, 1), nsel + 1))
    eig = EIG([e for e, u in EU])
    mmn = MMN([np.array([EU[ik][1].conj().T @ EU[bk.neighbours[ik][ib]][1] for ib in range(bk.NNB)]) for ik in range(NK)])
    proj = np.linalg.qr(rng.normal(size=(NB, NW)) + 1j * rng.normal(size=(NB, NW)))[0]
    amn = AMN([EU[ik][1].conj().T @ proj for ik in range(NK)])
    tmp = tempfile.mkdtemp(prefix="c15w_", dir=env.WORK if os.path.isdir(env.WORK) else "/tmp")
    wit = dict(nb0=nb0, copies=m, step=step, mp_grid=mp, NW=NW, froz_max=froz_max, froz_min=froz_min, outer_min=outer_min,
               outer_max=outer_max)
    try:
        wd = WannierData()
        wd.seedname = os.path.join(tmp, "syn")
        wd.set_file("bkvec", bk)
        wd.set_file("eig", eig)
        wd.set_file("mmn", mmn)
        wd.set_file("amn", amn)
        mon.ctx = ctx
        before = ctx.counters.get("monitor_window_calls", 0)
        try:
            with warnings.catch_warnings():
                warnings.simplefilter("ignore")
                wd.wannierise(froz_min=froz_min, froz_max=froz_max, outer_min=outer_min, outer_max=outer_max,
                              num_iter=int(rng.integers(2, 6)), parallel=False, savechk=False, print_progress_every=1000,
                              sitesym=False, localise=bool(rng.random() < 0.5))
        finally:
            mon.ctx = None
        ncalls = ctx.counters.get("monitor_window_calls", 0) - before
        ctx.ev()
        ctx.count("wannierise_runs")
        if ncalls != 2 * NK:
            ctx.violation("M-window:wrapper_not_reached", f"{ncalls} window selections observed for {NK} k-points", wit)
        ctx.nontrivial(("wannierise", nb0, m, mp, NW, np.isfinite(outer_max), np.isfinite(froz_min), np.isfinite(outer_min)))
        ctx.sample(wit)
    finally:
        shutil.rmtree(tmp, ignore_errors=True)


# ----------------------------------------------------------------------------------------------

def setup(ctx):
    env.import_wb()
    import wannierberri.grid.tetrahedron as T
    import wannierberri.utility as U
    import wannierberri.wannierisation.wannierise  # noqa: F401  (the module, not the function of the same name)
    W = sys.modules["wannierberri.wannierisation.wannierise"]
    state = dict(T=T, U=U, W=W)
    bm = BordersMonitor(T.get_borders)
    T.get_borders = bm                       # get_bands_in_range resolves the global at call time
    wm = WindowMonitor(W.select_window_degen)
    W.select_window_degen = wm               # the name bound by `from ..utility import select_window_degen`
    state["borders_monitor"] = bm
    state["window_monitor"] = wm
    return state


def case(ctx, rng, idx, state):
    r = int(rng.integers(10))
    if r < 5:
        ctx.count("cases_arrays")
        case_arrays(ctx, rng, state)
    elif r < 8:
        ctx.count("cases_datak")
        case_datak(ctx, rng, state)
    else:
        ctx.count("cases_wannierise")
        case_wannierise(ctx, rng, state)


if __name__ == "__main__":
    harness.main(
        PROP, "exploration", case, setup_fn=setup,
        tiers=dict(quick=dict(cases=4000, shards=8, time=900), thorough=dict(cases=40000, shards=16, time=3000)),
        rule="sorted arrays of 1-5 multiplets of 1-6 bands (inner gaps 0, 0.1, 0.5, 0.9 of the threshold incl. chains wider "
             "than the threshold, outer gaps 1.1-1000 thresholds, integer arrays with exact gap == thresh ties, thresh 0 and "
             "the default), windows with edges between bands, inside multiplets, on bands, infinite, empty or inverted; "
             "spin/copy-multiplied Hermitian models (exact, chained and split multiplets, Kramers pairs, generic with a large "
             "threshold) for Data_K groups and tabulators; synthetic Wannier90 data sets for wannierise.  Non-trivial: an "
             "array with a multiplet of >= 2 bands (distinct by multiplet sizes and mode), a window that cuts a multiplet "
             "(distinct by sizes, edge, include_degen), a model with a multi-band block at some k",
        assumptions=["oracle = connected components of gap <= thresh (gap < thresh for the windows), vlib/oracles.py:components",
                     "gaps within 1e-9 of the threshold are skipped for non-integer arrays; exact ties are judged on integer arrays "
                     "for get_borders / get_bands_in_range only (the property says 'at most')",
                     "Kramers grouping is judged for an even number of bands only",
                     "a band exactly on a window / range edge may be counted inside or outside"],
        required_counters=("get_borders", "get_borders_Kramers", "find_degen", "get_bands_in_range", "select_window_degen",
                           "window_cuts_multiplet", "get_bands_in_range_groups", "tabulator_Energy", "tabulator_Velocity",
                           "tabulator_blocks_with_several_bands", "run_TabulatorAll", "monitor_get_borders_calls",
                           "wannierise_runs", "monitor_window_calls", "monitor_window_cuts_multiplet"),
    )
