"""C15 - degenerate multiplets are never split (REF + INV).

Oracle: blocks = connected components of "gap <= thresh" of the sorted band energies
(vlib.oracles.components; strict "gap < thresh" for the window selection, which is what
"closer than its threshold" says) and set algebra over whole components:

  get_borders / get_bands_in_range(_groups) : the blocks are exactly the components (exact ties gap == thresh
        are internal - the property says "at most"); with Kramers degeneracy (even number of bands) the
        boundaries are the even component boundaries; in-range groups = all blocks that intersect the range,
        Fermi-sea group = all blocks entirely below it
  find_degen                                : the components (threshold ties guarded)
  select_window_degen                       : include_degen=True -> all strict components that intersect the
        window, False -> all strict components contained in it; both return modes; threshold ties guarded,
        a band exactly on a window edge may count as inside or outside (any consistent choice is accepted,
        the multiplet must still not be split)
  TetraWeights.weights_all_band_groups      : (the groups of tetra=True calculators) keys = all blocks of the centre energies whose
        span over the k-cell meets the Fermi range + one sea (der=0) / anti-sea (der=-1) group made of whole blocks
  Tabulator                                 : values equal inside every block, Energy = block mean of an
        independent diagonalisation, also through wannierberri.run (TabulatorAll on Grid and Path) and evaluate_k
  wannierise                                : M-window - a wrapper around the name `select_window_degen`
        inside wannierisation/wannierise.py checks every frozen / outer window of a real disentanglement;
        M-disentangle - the frozen / free masks handed to Wannierizer.add_kpoint are whole multiplets

In-situ: M-borders: wrapper around tetrahedron.get_borders (looked up at call time by get_bands_in_range,
which Data_K imports at call time) asserts contiguity, cover, inner gaps <= thresh < outer gaps, parity.
M-groups (Data_K.get_bands_in_range_groups_ik) and M-tetra-groups (TetraWeights.weights_all_band_groups) judge every
grouping made by tabulators, static (tetra or not, Fermi sea, hole-like, select_bands) and dynamic calculators in
wannierberri.run on Grid, GridTetra and Path.

Widening review (DESIGN 13/14): arrays of 50-300 bands; strided / read-only / int64 / float32 storage and the caller's array
left unchanged; numpy-scalar and positional arguments; documented defaults by omission (degen_thresh=-1 of the range functions
and of Data_K, 1e-4 of the calculators, the empty frozen window); select_bands / ibands as list, tuple, unordered, single,
empty; only one of Ebandmin / Ebandmax; systems with an API history (rvec.copy, do_ws_dist, npz round trip, warm caches), 2D;
Data_K, tabulator, TetraWeights and WannierData objects re-used for a second request with other parameters; two coinciding
Kramers pairs; explicit frozen_states, bands removed by WannierData.select_bands before wannierising, window edges on bands.
"""
import os
import shutil
import sys
import tempfile
import warnings

sys.path.insert(0, os.path.dirname(os.path.dirname(os.path.abspath(__file__))))
from vlib import env, harness, gen_systems, oracles  # noqa: E402
import numpy as np  # noqa: E402

PROP = "C15"
# classes that fire on the unchanged tree and wait for the coordinator's decision (see the final report of the widening review):
#   WannierData.select_bands(selected_bands=<boolean mask>) raises AssertionError for every mask that drops a band
#   (witnesses/review_c15_finding_1.py) - a side finding in a history step, not the window selection itself
PENDING = os.environ.get("VERIF_C15_PENDING", "0") == "1"


# ----------------------------------------------------------------------------------------------
#  oracle helpers
# ----------------------------------------------------------------------------------------------

def has_thresh_tie(E, thresh, which="any"):
    """a gap so close to the threshold that '<' / '<=' or a differently rounded gap could decide.
    which = 'exact' : gap == thresh exactly;  'near' : within the guard but not equal;  'any' : either"""
    E = np.asarray(E, dtype=float)
    if len(E) < 2:
        return False
    gaps = np.diff(E)
    exact = gaps == thresh
    if which == "exact":
        return bool(np.any(exact))
    guard = 1e-9 * (1.0 + float(np.max(np.abs(E))))
    near = (np.abs(gaps - thresh) <= guard) & ~exact
    if which == "near":
        return bool(np.any(near))
    return bool(np.any(near | exact))


def kramers_blocks(E, thresh):
    """boundaries = component boundaries that fall on even indices (even number of bands)"""
    comps = oracles.components(E, thresh)
    borders = sorted({c[0] for c in comps if c[0] % 2 == 0} | {len(E)})
    return [(a, b) for a, b in zip(borders, borders[1:])]


def blocks_oracle(E, thresh, kramers):
    return kramers_blocks(E, thresh) if kramers else oracles.components(E, thresh)


def check_block_invariants(ctx, mech, E, blocks, thresh, kramers, wit):
    """structural statement of the property, checked directly on what the code returned"""
    E = np.asarray(E, dtype=float)
    n = len(E)
    ctx.ev()
    blocks = [(int(a), int(b)) for a, b in blocks]
    ok = len(blocks) > 0 and blocks[0][0] == 0 and blocks[-1][1] == n and all(b > a for a, b in blocks) and \
        all(blocks[i][1] == blocks[i + 1][0] for i in range(len(blocks) - 1))
    if n == 0:
        ok = True
    if not ok:
        ctx.violation(mech + ":blocks_not_contiguous_cover", f"blocks {blocks} of {n} bands", wit)
        return False
    bset = {a for a, b in blocks}
    for i in range(1, n):
        gap = E[i] - E[i - 1]
        if i in bset:
            if not gap > thresh:
                ctx.violation(mech + ":boundary_gap_not_larger_than_thresh", f"boundary at {i}, gap {gap!r} thresh {thresh!r}", wit)
                return False
            if kramers and i % 2:
                ctx.violation(mech + ":odd_Kramers_boundary", f"boundary at odd index {i}", wit)
                return False
        else:
            if gap > thresh and (not kramers or i % 2 == 0):
                ctx.violation(mech + ":inner_gap_larger_than_thresh", f"no boundary at {i}, gap {gap!r} thresh {thresh!r}", wit)
                return False
    return True


def window_expected(E, thresh, win_min, win_max, include_degen, closed_lo=True, closed_hi=True):
    E = np.asarray(E, dtype=float)
    lo = (E >= win_min) if closed_lo else (E > win_min)
    hi = (E <= win_max) if closed_hi else (E < win_max)
    inside = lo & hi
    out = np.zeros(len(E), dtype=bool)
    for a, b in oracles.components(E, thresh, strict=True):
        if include_degen:
            if np.any(inside[a:b]):
                out[a:b] = True
        else:
            if np.all(inside[a:b]):
                out[a:b] = True
    return out


# ----------------------------------------------------------------------------------------------
#  generators of sorted band arrays
# ----------------------------------------------------------------------------------------------

def gen_array(rng, big=False):
    """sorted energies made of multiplets (sizes 1-6) and the threshold that defines them;
    big: 25-60 multiplets of 1-8 bands (about 50-300 bands, the size of a real ab-initio band set)"""
    mode = ["float", "float", "float", "integer", "zero_thresh", "default"][int(rng.integers(6))]
    if mode == "zero_thresh" and rng.random() < 0.4:
        mode = "negative_thresh"          # degeneracy handling switched off (-1, the default of the range functions): every band alone
    nm = int(rng.integers(1, 6))
    sizes = [int(rng.integers(1, 7)) if rng.random() < 0.6 else 1 for _ in range(nm)]
    if big:
        nm = int(rng.integers(25, 61))
        sizes = [int(rng.integers(1, 9)) if rng.random() < 0.6 else 1 for _ in range(nm)]
    if mode == "integer":
        # exact arithmetic: integer energies, integer threshold; gap == thresh ties on purpose
        thresh = float(rng.integers(0, 4))
        E = [float(rng.integers(-20, 20))]
        for im, s in enumerate(sizes):
            for j in range(s - 1):
                E.append(E[-1] + float(rng.integers(0, int(thresh) + 1)))
            if im < nm - 1:
                E.append(E[-1] + thresh + float(rng.integers(1, 5)))
        return np.array(E), thresh, mode
    if mode in ("zero_thresh", "negative_thresh"):
        thresh = 0.0
    elif mode == "default":
        thresh = 1e-2
    else:
        thresh = float(10 ** rng.uniform(-8, 0))
    scale = [1.0, 1.0, 10.0, 100.0][int(rng.integers(4))]
    unit = thresh if thresh > 0 else 1e-3
    E = [float(rng.uniform(-1, 1) * scale)]
    for im, s in enumerate(sizes):
        for j in range(s - 1):
            frac = [0.0, 0.0, 0.1, 0.5, 0.9][int(rng.integers(5))]       # inner gaps: exact or below thresh
            E.append(E[-1] + frac * thresh)
        if im < nm - 1:
            E.append(E[-1] + unit * [1.1, 2.0, 10.0, 1e3][int(rng.integers(4))] + (0.0 if thresh > 0 else 0.0))
    if mode == "negative_thresh":
        thresh = -1.0                     # the array keeps its exactly coinciding energies
    return np.array(E), thresh, mode


def storage_variant(rng, E, mode):
    """the same numbers held differently: a strided view, a read-only array, and (integer-valued arrays only, where every
    difference is exact in any of the types) int64 / float32 storage.  Returns (array, tag)"""
    forms = ["plain", "plain", "strided", "readonly"]
    if mode == "integer":
        forms += ["int64", "float32"]
    form = forms[int(rng.integers(len(forms)))]
    if form == "strided":
        buf = np.full(2 * len(E), np.nan)
        buf[::2] = E
        return buf[::2], form
    if form == "readonly":
        Ev = E.copy()
        Ev.setflags(write=False)
        return Ev, form
    if form == "int64":
        return E.astype(np.int64), form
    if form == "float32":
        return E.astype(np.float32), form
    return E.copy(), form


def scalar_variant(rng, x):
    """a python float given as numpy scalar (what comes out of array arithmetic in user code) or, if integral, as python int"""
    r = rng.random()
    if r < 0.25:
        return np.float64(x)
    if r < 0.35 and np.isfinite(x) and float(x) == int(x):
        return int(x)
    return x


def selection_variant(rng, n):
    """select_bands in the forms users pass: sorted / unordered ndarray, list, tuple, a single band, the empty selection"""
    r = rng.random()
    if r < 0.08:
        idx, form = np.zeros(0, dtype=int), "empty"
    elif r < 0.2:
        idx, form = np.array([int(rng.integers(n))]), "single"
    else:
        idx, form = rng.choice(n, size=int(rng.integers(1, n + 1)), replace=False), "several"
    q = int(rng.integers(4))
    if q == 0:
        return np.sort(idx), idx, form + ":sorted_array"
    if q == 1:
        return idx, idx, form + ":unordered_array"
    if q == 2:
        return [int(i) for i in idx], idx, form + ":list"
    return tuple(int(i) for i in idx), idx, form + ":tuple"


def gen_window(rng, E, thresh):
    """window edges: between bands, inside multiplets, on band energies (edge ties), outside, infinite, empty"""
    n = len(E)
    lo, hi = float(E.min()), float(E.max())
    span = max(hi - lo, 1.0)

    def edge():
        r = rng.random()
        if r < 0.35 and n > 1:                       # between two neighbouring bands (cuts a multiplet or not)
            i = int(rng.integers(n - 1))
            return float(E[i] + (E[i + 1] - E[i]) * rng.uniform(0.2, 0.8))
        if r < 0.5:                                  # exactly on a band
            return float(E[int(rng.integers(n))])
        if r < 0.6:
            return float(-np.inf if rng.random() < 0.5 else np.inf)
        if r < 0.75:
            return float(lo - span * rng.uniform(0.1, 2)) if rng.random() < 0.5 else float(hi + span * rng.uniform(0.1, 2))
        return float(rng.uniform(lo - 0.1 * span, hi + 0.1 * span))
    a, b = edge(), edge()
    if rng.random() < 0.9 and a > b:
        a, b = b, a
    return a, b


# ----------------------------------------------------------------------------------------------
#  kind 1 : arrays
# ----------------------------------------------------------------------------------------------

def arrays_one(ctx, rng, state, big=False):
    T, U = state["T"], state["U"]
    E, thresh, mode = gen_array(rng, big=big)
    n = len(E)
    # the array handed to the library: the same numbers as a strided view / read-only / int64 / float32 array
    Ev, form = storage_variant(rng, E, mode)
    ctx.count("storage_" + form)
    if mode == "negative_thresh":
        ctx.count("arrays_negative_thresh")
    if big:
        ctx.count("arrays_big")
        if n >= 100:
            ctx.count("arrays_with_100_bands_or_more")
    wit = dict(E=E, thresh=thresh, mode=mode, storage=form)

    def edges(a, b):
        if form == "float32":          # a python float is compared in float32 with such an array: give representable edges
            return float(np.float32(a)), float(np.float32(b))
        return a, b
    # exact ties gap == thresh are pinned by the property ("at most" -> internal) for the band groups;
    # gaps that differ from the threshold by rounding only are not judged
    tie = has_thresh_tie(E, thresh, "near")
    comps = oracles.components(E, thresh)
    sizes = sorted(b - a for a, b in comps)

    # ---------------- get_borders ------------------------------------------------------------
    if tie:
        ctx.count("skipped_threshold_tie")
    else:
        for kr in (False, True):
            if kr and n % 2:
                continue
            th = scalar_variant(rng, thresh)
            if rng.random() < 0.3:
                got = T.get_borders(Ev, th, kr) if kr or rng.random() < 0.5 else T.get_borders(Ev, th)     # positional
            else:
                got = T.get_borders(Ev, th, degen_Kramers=kr)
            got_t = [(int(a), int(b)) for a, b in got]
            check_block_invariants(ctx, "get_borders", E, got_t, thresh, kr, dict(wit, Kramers=kr, got=got_t))
            ctx.ev()
            exp = blocks_oracle(E, thresh, kr)
            if got_t != exp:
                ctx.violation("get_borders!=components", f"got {got_t} expected {exp}", dict(wit, Kramers=kr))
            ctx.count("get_borders_Kramers" if kr else "get_borders")
        got = T.get_borders(Ev, -1)
        ctx.ev()
        if [tuple(x) for x in got] != [(i, i + 1) for i in range(n)]:
            ctx.violation("get_borders[thresh<0]!=single_bands", f"got {got}", wit)
        if n % 2 == 0:
            # every band its own multiplet + Kramers degeneracy requested: the Kramers pairs
            got = T.get_borders(Ev, -1, degen_Kramers=True)
            ctx.ev()
            ctx.count("get_borders_Kramers_negative_thresh")
            if [tuple(int(i) for i in x) for x in got] != [(i, i + 2) for i in range(0, n, 2)]:
                ctx.violation("get_borders[thresh<0,Kramers]!=pairs", f"got {got}", wit)

        # ---------------- find_degen --------------------------------------------------------
        if not has_thresh_tie(E, thresh, "exact"):
            got = [(int(a), int(b)) for a, b in U.find_degen(Ev, scalar_variant(rng, thresh))]
            ctx.ev()
            ctx.count("find_degen")
            if got != comps:
                ctx.violation("find_degen!=components", f"got {got} expected {comps}", wit)

        # ---------------- get_bands_in_range ------------------------------------------------
        for _ in range(2):
            emin, emax = edges(*gen_window(rng, E, thresh))
            kr = bool(n % 2 == 0 and rng.random() < 0.3)
            # spans of the bands over a k-cell (what the tetrahedron method passes): both, only one of them, or none
            span = ["none", "none", "none", "both", "both", "min", "max"][int(rng.integers(7))]
            if form in ("int64", "float32"):
                span = "none"
            Emin = E - np.abs(rng.normal(size=n)) * max(thresh, 1e-3) * 3 if span in ("both", "min") else E
            Emax = E + np.abs(rng.normal(size=n)) * max(thresh, 1e-3) * 3 if span in ("both", "max") else E
            sel, sel_idx, sel_form = None, None, None
            if rng.random() < 0.4:
                sel, sel_idx, sel_form = selection_variant(rng, n)
            # documented defaults: degen_thresh=-1 (every band its own group), degen_Kramers=False
            use_default_thresh = bool(rng.random() < 0.12)
            th_eff = -1 if use_default_thresh else thresh
            edge_tie = bool(np.any(Emax == emin) or np.any(Emin == emax))
            kw = dict(select_bands=sel)
            if not use_default_thresh:
                kw["degen_thresh"] = scalar_variant(rng, thresh)
            if kr or rng.random() < 0.5:
                kw["degen_Kramers"] = kr
            if span in ("both", "min"):
                kw["Ebandmin"] = Emin
            elif rng.random() < 0.5:
                kw["Ebandmin"] = None
            if span in ("both", "max"):
                kw["Ebandmax"] = Emax
            if sel is None and rng.random() < 0.5:
                kw.pop("select_bands")
            got = T.get_bands_in_range(scalar_variant(rng, emin), scalar_variant(rng, emax), Ev, **kw)
            got_t = [(int(a), int(b)) for a, b in got]
            blocks = blocks_oracle(E, th_eff, kr)
            w2 = dict(wit, emin=emin, emax=emax, Kramers=kr, select_bands=sel, got=got_t, degen_thresh=th_eff,
                      Ebandmin=Emin if span in ("both", "min") else None, Ebandmax=Emax if span in ("both", "max") else None)
            ctx.ev()
            ctx.count("get_bands_in_range")
            if use_default_thresh:
                ctx.count("get_bands_in_range_default_thresh")
            if span in ("min", "max"):
                ctx.count("get_bands_in_range_one_span_only")
            if sel_form is not None:
                ctx.count("get_bands_in_range_select_" + sel_form.split(":")[1])
                if sel_form.startswith("empty"):
                    ctx.count("get_bands_in_range_select_empty")
            if not set(got_t) <= set(blocks) or got_t != sorted(got_t):
                ctx.violation("get_bands_in_range:not_whole_blocks", f"got {got_t}, blocks {blocks}", w2)
                continue
            for a, b in blocks:
                if sel is not None and not (set(range(a, b)) & set(int(i) for i in sel_idx)):
                    expect = False
                else:
                    strictly = Emax[a:b].max() > emin and Emin[a:b].min() < emax
                    weakly = Emax[a:b].max() >= emin and Emin[a:b].min() <= emax
                    if strictly != weakly:
                        continue          # block touches the range edge exactly: either answer keeps it whole
                    expect = weakly
                if ((a, b) in got_t) != expect:
                    ctx.violation("get_bands_in_range!=blocks_intersecting_range",
                                  f"block {(a, b)} in result: {(a, b) in got_t}, expected {expect}", w2)
                    break
            if edge_tie:
                ctx.count("range_edge_on_band")

    # ---------------- select_window_degen ------------------------------------------------------
    if has_thresh_tie(E, thresh):
        ctx.count("skipped_threshold_tie_window")
    else:
        comps_s = oracles.components(E, thresh, strict=True)
        for _ in range(3):
            wmin, wmax = edges(*gen_window(rng, E, thresh))
            for inc in (False, True):
                kw = dict(thresh=scalar_variant(rng, thresh), win_min=scalar_variant(rng, wmin), win_max=scalar_variant(rng, wmax),
                          include_degen=inc if rng.random() < 0.8 else (np.bool_(inc) if rng.random() < 0.5 else int(inc)))
                if mode == "default" and rng.random() < 0.5:
                    kw.pop("thresh")                     # the default threshold 1e-2
                if "thresh" in kw and rng.random() < 0.15:
                    # positional call in the documented order (E, thresh, win_min, win_max, include_degen, return_indices)
                    args = (kw["thresh"], kw["win_min"], kw["win_max"], kw["include_degen"])
                    kw = {}
                    ctx.count("select_window_degen_positional")
                else:
                    args = ()
                got = U.select_window_degen(Ev, *args, **kw)
                got = np.asarray(got)
                w2 = dict(wit, win_min=wmin, win_max=wmax, include_degen=inc, got=got)
                ctx.ev()
                ctx.count("select_window_degen")
                if got.dtype != bool or got.shape != E.shape:
                    ctx.violation("select_window_degen:bad_return_type", f"dtype {got.dtype} shape {got.shape}", w2)
                    continue
                # never split (the statement itself)
                split = [c for c in comps_s if 0 < got[c[0]:c[1]].sum() < c[1] - c[0]]
                if split:
                    ctx.violation("select_window_degen:multiplet_split", f"components {split} split: {got.astype(int)}", w2)
                    continue
                edge_tie = bool(np.any(E == wmin) or np.any(E == wmax))
                exps = [window_expected(E, thresh, wmin, wmax, inc)]
                if edge_tie:
                    exps += [window_expected(E, thresh, wmin, wmax, inc, cl, ch)
                             for cl in (True, False) for ch in (True, False)]
                    ctx.count("window_edge_on_band")
                if not any(np.array_equal(got, e) for e in exps):
                    ctx.violation("select_window_degen!=whole_components_of_window",
                                  f"got {got.astype(int)} expected {exps[0].astype(int)}", w2)
                    continue
                if args:
                    idx = U.select_window_degen(Ev, *args, True)
                else:
                    idx = U.select_window_degen(Ev, return_indices=True, **kw)
                ctx.ev()
                if [int(i) for i in idx] != [int(i) for i in np.where(got)[0]]:
                    ctx.violation("select_window_degen:return_indices!=mask", f"indices {idx} mask {got.astype(int)}", w2)
                # asking again gives the same answer (the first answer is not touched by the second request either)
                again = np.asarray(U.select_window_degen(Ev, *args, **kw))
                ctx.ev()
                if not np.array_equal(again, got):
                    ctx.violation("select_window_degen:second_request_differs", f"{got.astype(int)} then {again.astype(int)}", w2)
                cutting = [c for c in comps_s if c[1] - c[0] > 1 and
                           0 < ((E[c[0]:c[1]] >= wmin) & (E[c[0]:c[1]] <= wmax)).sum() < c[1] - c[0]]
                if cutting:
                    ctx.count("window_cuts_multiplet")
                    if big:
                        ctx.count("window_cuts_multiplet_big_array")
                    ctx.nontrivial(("window", n if not big else n // 50, tuple(sizes) if not big else max(sizes), mode, inc,
                                    max(c[1] - c[0] for c in cutting), cutting[0][0] == 0, cutting[-1][1] == n))
    # none of the functions may change the caller's array
    ctx.ev()
    if not np.array_equal(np.asarray(Ev, dtype=float), E):
        ctx.violation("input_array_modified", f"storage {form}: array changed by the calls", wit)
    if max(sizes) > 1 and not tie:
        ctx.nontrivial(("blocks", n if not big else n // 50, tuple(sizes) if not big else max(sizes), mode))
    return wit


# ----------------------------------------------------------------------------------------------
#  kind 1b : the band groups of the tetrahedron method (TetraWeights.weights_all_band_groups)
# ----------------------------------------------------------------------------------------------

def tetra_expected_keys(E, Emin, Emax, ef0, ef1, thresh, kram, der, sel_idx=None):
    """the groups a tetra=True calculator must use at one k-point: every block (component of the centre energies) whose span over the
    k-cell meets [ef0, ef1] (and that holds a selected band), and - Fermi sea, der=0 - all blocks entirely below ef0 as ONE group
    starting at band 0 (der=-1, hole-like: all blocks entirely above ef1 as one group ending at the last band).
    Returns (set of mandatory keys, set of optional keys: blocks that only touch an edge of the range)"""
    blocks = blocks_oracle(E, thresh, kram)
    must, may = set(), set()
    for a, b in blocks:
        if sel_idx is not None and not (set(range(a, b)) & set(int(i) for i in sel_idx)):
            continue
        strictly = Emax[a:b].max() > ef0 and Emin[a:b].min() < ef1
        weakly = Emax[a:b].max() >= ef0 and Emin[a:b].min() <= ef1
        if strictly:
            must.add((a, b))
        elif weakly:
            may.add((a, b))
    if der == 0:
        below = [(a, b) for a, b in blocks if Emax[a:b].max() < ef0]
        if below:
            must.add((0, max(b for a, b in below)))
    if der == -1:
        above = [(a, b) for a, b in blocks if Emin[a:b].min() > ef1]
        if above:
            must.add((min(a for a, b in above), len(E)))
    return must, may


def judge_group_keys(ctx, mech, got, E, Emin, Emax, ef0, ef1, thresh, kram, der, sel_idx, wit):
    """the groups of one k-point against tetra_expected_keys: True / False (violation recorded) / None (not judged: a block lies
    exactly on an edge of the range and a sea group is asked for - it may be counted in the range or in the sea)"""
    ctx.ev()
    got = {(int(a), int(b)) for a, b in got}
    must, may = tetra_expected_keys(E, Emin, Emax, float(ef0), float(ef1), thresh, kram, der, sel_idx)
    if may and der in (0, -1):
        return None
    if not (must <= got <= (must | may)):
        ctx.violation(mech + "!=whole_blocks", f"der={der}: groups {sorted(got)}, expected {sorted(must)}"
                      + (f" (+ optionally {sorted(may)})" if may else ""), dict(wit, got=sorted(got), expected=sorted(must)))
        return False
    return True


def judge_tetra_groups(ctx, mech, res_k, E, Emin, Emax, Ef, thresh, kram, der, sel_idx, wit):
    """one k-point of weights_all_band_groups"""
    ok = judge_group_keys(ctx, mech, set(res_k), E, Emin, Emax, Ef[0], Ef[-1], thresh, kram, der, sel_idx, wit)
    if not ok:
        return ok
    for key in res_k:
        w = np.asarray(res_k[key], dtype=float)
        if w.shape != np.shape(Ef):
            ctx.violation(mech + ":weight_shape", f"group {key}: weight of shape {w.shape} for {len(Ef)} Fermi levels", wit)
            return False
    return True


def tetra_groups_one(ctx, rng, state):
    T = state["T"]
    E0, thresh, mode = gen_array(rng)
    nb = len(E0)
    if has_thresh_tie(E0, thresh, "near"):
        ctx.count("skipped_threshold_tie")
        return
    paral = bool(rng.random() < 0.5)
    nk = int(rng.integers(1, 4))
    unit = max(thresh, 1e-3)
    # centre energies: the same multiplet structure at every k (shifted); corner energies: the centre energies moved by a
    # k-dependent amount and sorted again (bands do not cross inside a cell) - spread below, around or far above the threshold
    spread = unit * [0.0, 0.3, 3.0, 30.0][int(rng.integers(4))]
    ncorn = 8 if paral else 4
    eCenter = np.array([E0 + (0.0 if ik == 0 else rng.uniform(-5, 5) * unit) for ik in range(nk)])
    corners = np.sort(eCenter[:, None, :] + spread * rng.normal(size=(nk, ncorn, nb)), axis=-1)
    eCorners = corners.reshape((nk, 2, 2, 2, nb)) if paral else corners
    tw = (T.TetraWeightsParal if paral else T.TetraWeights)(eCenter=eCenter.copy(), eCorners=eCorners.copy())
    Eall = np.concatenate([eCenter[:, None, :], corners], axis=1)
    Emin, Emax = Eall.min(axis=1), Eall.max(axis=1)
    kram = bool(nb % 2 == 0 and rng.random() < 0.35)
    wit0 = dict(eCenter=eCenter, eCorners=eCorners, thresh=thresh, Kramers=kram, paral=paral, mode=mode)

    def fermi():
        a, b = gen_window(rng, eCenter[int(rng.integers(nk))], thresh)
        a, b = min(a, b), max(a, b)
        lo, hi = float(Eall.min()), float(Eall.max())
        a = max(a, lo - 1.0 - unit) if np.isfinite(a) else lo - 1.0
        b = min(b, hi + 1.0 + unit) if np.isfinite(b) else hi + 1.0
        a, b = min(a, b), max(a, b)
        nE = int(rng.integers(1, 5))
        return np.ascontiguousarray(np.sort(np.concatenate([[a], rng.uniform(a, b, nE - 1)]) if nE > 1 else np.array([a])))
    Ef_first = fermi()
    requests = [(Ef_first, "first"), (fermi(), "second_array_on_the_same_object"), (Ef_first, "first_again")]
    several = False
    for Ef, tag in requests:
        der = [0, 0, -1, 1, 2][int(rng.integers(5))]
        sel, sel_idx, sel_form = None, None, None
        if der >= 1 and rng.random() < 0.4:
            sel, sel_idx, sel_form = selection_variant(rng, nb)
        kw = dict(degen_thresh=scalar_variant(rng, thresh), degen_Kramers=kram)
        if sel is not None:
            kw["select_bands"] = sel
        res = tw.weights_all_band_groups(Ef, der, **kw) if rng.random() < 0.3 else tw.weights_all_band_groups(Ef, der=der, **kw)
        ctx.count("tetra_groups")
        ctx.count("tetra_groups_paral" if paral else "tetra_groups_tetra")
        if tag != "first":
            ctx.count("tetra_groups_object_reused")
        if sel is not None:
            ctx.count("tetra_groups_select_bands")
        if len(res) != nk:
            ctx.violation("TetraWeights.groups:number_of_k", f"{len(res)} for {nk} k-points", wit0)
            continue
        for ik in range(nk):
            wit = dict(wit0, ik=ik, Efermi=Ef, der=der, select_bands=sel, request=tag)
            ok = judge_tetra_groups(ctx, "TetraWeights.groups", res[ik], eCenter[ik], Emin[ik], Emax[ik], Ef, thresh, kram, der,
                                    sel_idx, wit)
            if ok is None:
                ctx.count("tetra_groups_edge_tie")
                continue
            if not ok:
                break
            must, _ = tetra_expected_keys(eCenter[ik], Emin[ik], Emax[ik], float(Ef[0]), float(Ef[-1]), thresh, kram, der, sel_idx)
            blocks = set(blocks_oracle(eCenter[ik], thresh, kram))
            extra = [k for k in must if k not in blocks]         # the sea / anti-sea group when it joins several blocks
            for key in must - blocks | {k for k in must if der in (0, -1) and (k[0] == 0 or k[1] == nb) and
                                        (Emax[ik, k[0]:k[1]].max() < Ef[0] or Emin[ik, k[0]:k[1]].min() > Ef[-1])}:
                ctx.ev()
                if not np.array_equal(np.asarray(res[ik][key], dtype=float), np.ones(len(Ef))):
                    ctx.violation("TetraWeights.groups:sea_weight!=1", f"group {key}: {res[ik][key]}", wit)
            if extra:
                ctx.count("tetra_sea_group_of_several_blocks")
            if any(b - a > 1 for a, b in must & blocks):
                several = True
    if several:
        ctx.nontrivial(("tetra_groups", paral, nk, nb, mode, kram))


def case_arrays(ctx, rng, state):
    U = state["U"]
    for j in range(60 if ctx.thorough else 40):
        wit = arrays_one(ctx, rng, state)
        if j == 0:
            ctx.sample(wit)
    for j in range(2):
        arrays_one(ctx, rng, state, big=True)
    for j in range(6):
        tetra_groups_one(ctx, rng, state)
    # the documented defaults: empty window
    E = np.sort(rng.normal(size=5))
    got = U.select_window_degen(E)
    ctx.ev()
    if np.any(got):
        ctx.violation("select_window_degen:default_window_not_empty", f"{got}", dict(E=E))
    # the witness of the repaired defect F7 stays in the regression set
    E = np.array([0.0, 0.001, 0.002, 1.0])
    got = U.select_window_degen(E, win_min=-np.inf, win_max=0.0015, include_degen=False)
    ctx.ev()
    if np.any(got):
        ctx.violation("select_window_degen:multiplet_split", f"F7 witness: {got}", dict(E=E, win_max=0.0015))


# ----------------------------------------------------------------------------------------------
#  kind 2 : Data_K groups, Tabulator, run() with M-borders
# ----------------------------------------------------------------------------------------------

class BordersMonitor:
    """M-borders: every call of tetrahedron.get_borders in a real workload"""

    def __init__(self, orig):
        self.orig = orig
        self.ctx = None

    def __call__(self, A, degen_thresh, degen_Kramers=False):
        res = self.orig(A, degen_thresh, degen_Kramers=degen_Kramers)
        ctx = self.ctx
        if ctx is not None:
            ctx.count("monitor_get_borders_calls")
            A = np.asarray(A, dtype=float)
            if not (degen_Kramers and len(A) % 2):
                check_block_invariants(ctx, "M-borders", A, res, degen_thresh, degen_Kramers,
                                       dict(E=A, thresh=degen_thresh, Kramers=degen_Kramers, got=res, insitu=True))
        return res


class GroupsMonitor:
    """M-groups: every call of Data_K.get_bands_in_range_groups_ik in a real workload (tetra=False static calculators, dynamic
    calculators, tabulators): the keys are whole blocks of E_K[ik] (+ the Fermi-sea group = all blocks entirely below the range),
    the values the block means"""
    NAMES = ("degen_thresh", "degen_Kramers", "sea", "Emin", "Emax", "select_bands")

    def __init__(self):
        self.ctx = None

    def install(self, cls):
        orig = cls.get_bands_in_range_groups_ik
        mon = self

        def wrapped(self_, ik, emin, emax, *args, **kwargs):
            res = orig(self_, ik, emin, emax, *args, **kwargs)
            if mon.ctx is not None:
                kw = dict(degen_thresh=-1, degen_Kramers=False, sea=False, Emin=-np.inf, Emax=np.inf, select_bands=None)
                kw.update(dict(zip(mon.NAMES, args)))
                kw.update(kwargs)
                mon.judge(self_, ik, emin, emax, kw, res)
            return res
        cls.get_bands_in_range_groups_ik = wrapped

    def judge(self, data, ik, emin, emax, kw, res):
        ctx = self.ctx
        ctx.count("monitor_groups_calls")
        E = np.asarray(data.E_K[ik], dtype=float)
        thresh, kram, sel = kw["degen_thresh"], kw["degen_Kramers"], kw["select_bands"]
        if (kram and len(E) % 2) or has_thresh_tie(E, thresh, "near"):
            ctx.count("monitor_groups_not_judged")
            return
        wit = dict(E=E, emin=emin, emax=emax, insitu=True, **{k: v for k, v in kw.items() if k not in ("Emin", "Emax")})
        sel_idx = None if sel is None else np.asarray(list(sel), dtype=int)
        ok = judge_group_keys(ctx, "M-groups", set(res), E, E, E, emin, emax, thresh, kram, 0 if kw["sea"] else 1, sel_idx, wit)
        if not ok:
            if ok is None:
                ctx.count("monitor_groups_not_judged")
            return
        scale = 1.0 + float(np.max(np.abs(E)))
        for (a, b), v in res.items():
            if np.isfinite(v):
                ctx.close("M-groups:energy!=block_mean", float(v), float(np.mean(E[a:b])), rtol=1e-12, scale=scale,
                          what=f"group {(a, b)}", witness=wit)
            elif not (kw["sea"] and a == 0 and v == -np.inf):
                ctx.violation("M-groups:sea_value", f"group {(a, b)}: {v}", wit)


class TetraGroupsMonitor:
    """M-tetra-groups: every call of TetraWeights.weights_all_band_groups (tetra=True calculators on Grid and GridTetra)"""
    NAMES = ("der", "degen_thresh", "degen_Kramers", "Emin", "Emax", "select_bands")

    def __init__(self):
        self.ctx = None

    def install(self, cls):
        orig = cls.weights_all_band_groups
        mon = self

        def wrapped(self_, eFermi, *args, **kwargs):
            res = orig(self_, eFermi, *args, **kwargs)
            if mon.ctx is not None:
                kw = dict(degen_thresh=-1, degen_Kramers=False, Emin=-np.inf, Emax=np.inf, select_bands=None)
                kw.update(dict(zip(mon.NAMES, args)))
                kw.update(kwargs)
                mon.judge(self_, eFermi, kw, res)
            return res
        cls.weights_all_band_groups = wrapped

    def judge(self, tw, Ef, kw, res):
        ctx = self.ctx
        ctx.count("monitor_tetra_groups_calls")
        if tw.nk == 0:
            return
        if np.isfinite(kw["Emin"]) or np.isfinite(kw["Emax"]):
            ctx.count("monitor_tetra_groups_not_judged")      # band-wise lower / upper cut of the sea asked for by the caller
            return
        thresh, kram, sel, der = kw["degen_thresh"], kw["degen_Kramers"], kw["select_bands"], kw["der"]
        sel_idx = None if sel is None else np.asarray(list(sel), dtype=int)
        Eall = np.concatenate((tw.eCenter[:, None, :], tw.eCorners.reshape(tw.nk, -1, tw.nb)), axis=1)
        Emin, Emax = Eall.min(axis=1), Eall.max(axis=1)
        for ik in range(tw.nk):
            E = np.asarray(tw.eCenter[ik], dtype=float)
            if (kram and len(E) % 2) or has_thresh_tie(E, thresh, "near"):
                ctx.count("monitor_tetra_groups_not_judged")
                continue
            wit = dict(E=E, Ebandmin=Emin[ik], Ebandmax=Emax[ik], Efermi=Ef, der=der, thresh=thresh, Kramers=kram, select_bands=sel,
                       ik=ik, insitu=True)
            ok = judge_tetra_groups(ctx, "M-tetra-groups", res[ik], E, Emin[ik], Emax[ik], Ef, thresh, kram, der, sel_idx, wit)
            if ok is False:
                return
            ctx.count("monitor_tetra_groups_judged")


def gen_deg_system(rng, workdir=None):
    """G-deg: H(R) (x) 1_m plus an on-site splitting of the copies (bands E_n(k) + delta_s exactly),
    or a generic model with a threshold so large that bands group accidentally"""
    mode = ["copies_exact", "copies_chain", "copies_split", "generic_large_thresh", "kramers", "kramers4",
            "default_thresh"][int(rng.integers(7))]
    nb0 = int(rng.integers(1, 4))
    if rng.random() < 0.08:
        nb0 = int(rng.integers(4, 7))                       # up to 24 bands
    two_d = bool(rng.random() < 0.12)
    periodic = (True, True, False) if two_d else (True, True, True)
    base = gen_systems.herm_system(rng, num_wann=nb0, radius=rng.uniform(1.0, 1.8),
                                   centers=["random", "zero"][int(rng.integers(2))], periodic=periodic)
    lo, hi, bw = gen_systems.bandwidth(base)
    thresh = float(10 ** rng.uniform(-6, -3))
    kram = False
    omit = False
    if mode == "generic_large_thresh":
        m = int(rng.integers(1, 3))
        delta = np.arange(m) * rng.uniform(0.01, 0.1) * (hi - lo)
        thresh = float(rng.uniform(0.03, 0.25) * (hi - lo))
    elif mode == "kramers":
        m = 2
        delta = np.array([0.0, 0.0 if rng.random() < 0.6 else 0.3 * thresh])
        kram = True
        if rng.random() < 0.5:
            thresh = -1.0
    elif mode == "kramers4":
        # two Kramers pairs that coincide (or nearly): one block of four, not two blocks of two
        m = 4
        d = [0.0, 0.3 * thresh, 0.9 * thresh, 5 * thresh][int(rng.integers(4))]
        delta = np.array([0.0, 0.0, d, d])
        kram = True
    elif mode == "default_thresh":
        # the calculators are built WITHOUT degen_thresh: the documented default 1e-4 eV decides
        thresh = 1e-4
        omit = True
        m = int(rng.integers(2, 4))
        delta = np.arange(m) * thresh * [0.0, 0.6, 3.0][int(rng.integers(3))]
    else:
        m = int(rng.integers(2, 5 if nb0 <= 3 else 4))
        step = {"copies_exact": 0.0, "copies_chain": 0.6 * thresh, "copies_split": 3.0 * thresh}[mode]
        delta = np.arange(m) * step
    Ham = base.get_R_mat("Ham")
    iR = base.rvec.iRvec
    H2 = np.array([np.kron(h, np.eye(m)) for h in Ham])
    i0 = iR.tolist().index([0, 0, 0])
    H2[i0] += np.kron(np.eye(nb0), np.diag(delta))
    cen = np.repeat(base.wannier_centers_red, m, axis=0)
    system = gen_systems.make_system(base.real_lattice, iR, {"Ham": H2}, cen, periodic=periodic)
    # a system that went through other public calls first (explicit right shifts, Wigner-Seitz folding, rebuilt from disk)
    system, hist = gen_systems.history_variant(rng, system, workdir=workdir)
    return system, dict(mode=mode, nb0=nb0, copies=m, delta=delta, thresh=thresh, Kramers=kram, band_range=(lo, hi),
                        omit_thresh=omit, periodic=periodic, history=hist)


def expected_groups(E, emin, emax, thresh, kram, sea, sel_idx=None):
    blocks = blocks_oracle(E, thresh, kram)
    exp = {}
    for a, b in blocks:
        if sel_idx is not None and not (set(range(a, b)) & set(int(i) for i in sel_idx)):
            continue
        if E[a:b].max() >= emin and E[a:b].min() <= emax:
            exp[(a, b)] = float(np.mean(E[a:b]))
    if sea:
        below = [(a, b) for a, b in blocks if E[a:b].max() < emin]
        if below:
            # all blocks entirely below the range, as one group starting at band 0
            exp[(0, max(b for a, b in below))] = -np.inf
    return exp


def ibands_variant(rng, nb):
    """ibands of a tabulator: None, sorted array, list, tuple, unordered, a single band"""
    r = int(rng.integers(6))
    if r == 0:
        return None, list(range(nb)), "none"
    if r == 1:
        ib = [int(rng.integers(nb))]
        return (ib if rng.random() < 0.5 else np.array(ib)), ib, "single"
    ib = [int(i) for i in rng.choice(nb, size=int(rng.integers(1, nb + 1)), replace=False)]
    if r == 2:
        return list(ib), ib, "unordered_list"
    ib = sorted(ib)
    if r == 3:
        return tuple(ib), ib, "tuple"
    if r == 4:
        return list(ib), ib, "list"
    return np.array(ib), ib, "array"


def thresh_kw(info):
    """constructor arguments that state the threshold - none when the documented default is under test"""
    kw = {} if info["omit_thresh"] else dict(degen_thresh=info["thresh"])
    if info["Kramers"] or not info["omit_thresh"]:
        kw["degen_Kramers"] = info["Kramers"]
    return kw


def judge_tabulated(ctx, name, out, nat, Eind, good_k, ib_list, thresh, kram, wit, factor=1.0, through=None):
    """tabulated values (nk, len(ib_list), ...) are equal inside every block; Energy is the block mean of the independent bands"""
    nk = len(Eind)
    out = np.asarray(out).reshape(nk, len(ib_list), -1)
    tag = "" if through is None else through + ": "
    for ik in good_k:
        for a, b in blocks_oracle(Eind[ik], thresh, kram):
            members = [j for j, ib in enumerate(ib_list) if a <= ib < b]
            if not members:
                continue
            w2 = dict(wit, ik=ik, E=Eind[ik], block=(a, b), ibands=ib_list, tabulator=name, through=through)
            if name == "Energy":
                ctx.close("Tabulator.Energy!=block_mean", out[ik, members, 0],
                          np.full(len(members), factor * Eind[ik, a:b].mean()), rtol=1e-9, scale=nat * abs(factor),
                          what=f"{tag}Energy of block {(a, b)}", witness=w2)
            if len(members) > 1:
                ctx.close(f"Tabulator.{name}:differs_inside_block", out[ik, members],
                          np.broadcast_to(out[ik, members[0]], out[ik, members].shape), rtol=1e-9, scale=nat,
                          what=f"{tag}{name} inside block {(a, b)}", witness=w2)
                ctx.count("tabulator_blocks_with_several_bands")


def good_kpoints(E, Eind, thresh):
    """k-points where neither the library's nor the independent energies have a gap within rounding of the threshold"""
    guard = 1e-9 * (1.0 + float(np.max(np.abs(Eind))))
    return [ik for ik in range(len(Eind))
            if not np.any(np.abs(np.diff(Eind[ik]) - thresh) <= guard) and
            (E is None or not np.any(np.abs(np.diff(E[ik]) - thresh) <= guard))]


def case_datak(ctx, rng, state):
    import wannierberri as wb
    from wannierberri import calculators as calc
    from wannierberri.grid import Grid
    from wannierberri.grid.Kpoint import KpointBZparallel
    from wannierberri.data_K.data_K_R import Data_K_R
    from vlib import monitors
    mons = [state["borders_monitor"], state["groups_monitor"], state["tetra_groups_monitor"]]
    workroot = env.WORK if os.path.isdir(env.WORK) else "/tmp"
    system, info = gen_deg_system(rng, workdir=workroot)
    ctx.count("history_" + info["history"])
    if rng.random() < 0.3:
        monitors.warm_caches(system)            # a system that has been used before
        ctx.count("system_caches_warm")
    nb = system.num_wann
    thresh, kram = info["thresh"], info["Kramers"]
    lo, hi = info["band_range"]
    NK = tuple(int(x) for x in rng.integers(1, 4, size=3))
    if not info["periodic"][2]:
        NK = NK[:2] + (1,)
        ctx.count("system_2D")
    tkw = thresh_kw(info)

    def make_data(dK):
        grid = Grid(system, NKdiv=1, NKFFT=NK, use_symmetry=False)
        Kp = KpointBZparallel(K=dK * np.array(NK), dK=np.ones(3), NKFFT=np.array(NK), factor=1.0,
                              pointgroup=grid.pointgroup, refinement_level=0)
        return Data_K_R(system, dK=Kp.Kp_fullBZ, grid=grid, Kpoint=Kp, fftlib=["fftw", "numpy"][int(rng.integers(2))])
    dK = rng.uniform(0, 1, 3) / np.array(NK)
    wit = dict(info, NK=NK, dK=dK, nb=nb)
    data = make_data(dK)
    E = np.array(data.E_K)
    nk = E.shape[0]
    Eind = gen_systems.bands(system, data.kpoints_all)
    scale = max(hi - lo, 1e-3) + float(np.max(info["delta"]))
    ctx.close("Data_K.E_K!=independent_bands", E, Eind, rtol=1e-9, scale=scale, what="E_K", witness=wit)
    good_k = good_kpoints(E, Eind, thresh)          # E_K and the independent bands differ by rounding: stay away from the threshold on both
    if len(good_k) < nk:
        ctx.count("skipped_threshold_tie_k", nk - len(good_k))

    def groups_requests():
        # ---- get_bands_in_range_groups (what static / dynamic calculators use) ---------------------
        for _ in range(3):
            emin, emax = np.sort(rng.uniform(lo - 0.1 * scale, hi + 0.1 * scale, 2))
            if rng.random() < 0.2:
                emin = -np.inf
            if rng.random() < 0.2:
                emax = np.inf
            sea = bool(rng.random() < 0.6)
            sel, sel_idx, sel_form = None, None, None
            th_eff = thresh
            if rng.random() < 0.1:
                # the documented defaults of Data_K: degen_thresh=-1 (every band alone), no Kramers pairs, no sea group
                got_all = data.get_bands_in_range_groups(emin, emax)
                th_eff, kr_eff, sea = -1, False, False
                ctx.count("groups_default_arguments")
            else:
                kr_eff = kram
                kw = dict(degen_thresh=scalar_variant(rng, thresh), degen_Kramers=kram, sea=sea)
                if not sea and rng.random() < 0.5:
                    sel, sel_idx, sel_form = selection_variant(rng, nb)
                    kw["select_bands"] = sel
                    ctx.count("groups_select_bands")
                if rng.random() < 0.3:
                    got_all = [data.get_bands_in_range_groups_ik(ik, emin, emax, **kw) for ik in range(nk)]
                else:
                    got_all = data.get_bands_in_range_groups(emin, emax, **kw)
            for ik in good_k:
                got = {(int(a), int(b)): float(v) for (a, b), v in got_all[ik].items()}
                exp = expected_groups(E[ik], emin, emax, th_eff, kr_eff, sea, sel_idx)
                w2 = dict(wit, ik=ik, E=E[ik], emin=emin, emax=emax, sea=sea, got=sorted(got), expected=sorted(exp), select_bands=sel,
                          degen_thresh=th_eff)
                ctx.ev()
                ctx.count("get_bands_in_range_groups")
                if set(got) != set(exp):
                    ctx.violation("get_bands_in_range_groups!=whole_blocks", f"got {sorted(got)} expected {sorted(exp)}", w2)
                    continue
                for key in exp:
                    if np.isfinite(exp[key]):
                        ctx.close("get_bands_in_range_groups:energy!=block_mean", got[key], exp[key], rtol=1e-12,
                                  scale=scale, what=f"group {key}", witness=w2)
                    elif got[key] != -np.inf:
                        ctx.violation("get_bands_in_range_groups:sea_value", f"{got[key]}", w2)
                if sea and any(not np.isfinite(v) for v in exp.values()) and len(exp) > 1:
                    ctx.count("sea_group_next_to_range_group")

    ibands, ib_list, ib_form = ibands_variant(rng, nb)
    ctx.count("ibands_" + ib_form)
    efac = [1.0, 1.0, -2.5][int(rng.integers(3))]
    ekw = dict(constant_factor=efac) if efac != 1.0 else {}
    tabs = {"Energy": calc.tabulate.Energy(ibands=ibands, **tkw, **ekw),
            "Velocity": calc.tabulate.Velocity(ibands=ibands, **tkw),
            "BerryCurvature": calc.tabulate.BerryCurvature(ibands=ibands, kwargs_formula={"external_terms": False}, **tkw),
            "InvMass": calc.tabulate.InvMass(ibands=ibands, **tkw)}
    twin = {"Velocity": calc.tabulate.Velocity(degen_thresh=-1, ibands=ibands),
            "BerryCurvature": calc.tabulate.BerryCurvature(degen_thresh=-1, ibands=ibands,
                                                           kwargs_formula={"external_terms": False}),
            "InvMass": calc.tabulate.InvMass(degen_thresh=-1, ibands=ibands)}

    def tabulate_on(data_, Eind_, good_, tag):
        # ---- Tabulator: equal inside blocks, Energy = block mean -------------------------------------
        for name, tab in tabs.items():
            out = np.asarray(tab(data_).data)
            # natural scale: the same quantity band by band (not the grouped value being judged)
            nat = scale if name == "Energy" else max(float(np.max(np.abs(np.asarray(twin[name](data_).data)))), 1e-6)
            judge_tabulated(ctx, name, out, nat, Eind_, good_, ib_list, thresh, kram, wit,
                            factor=efac if name == "Energy" else 1.0, through=tag)
            ctx.count("tabulator_" + name)

    for m in mons:
        m.ctx = ctx
    try:
        # the Data_K object serves the group requests and the tabulators in either order (its caches are warm for the second)
        if rng.random() < 0.5:
            groups_requests()
            tabulate_on(data, Eind, good_k, None)
        else:
            tabulate_on(data, Eind, good_k, None)
            groups_requests()
            ctx.count("groups_after_tabulation")
        # the same tabulator objects serve a second Data_K (other k-points, other number of k-points)
        if rng.random() < 0.4:
            NK_first = NK
            if rng.random() < 0.5:
                NK = tuple(int(x) for x in rng.integers(1, 4, size=3))
                if not info["periodic"][2]:
                    NK = NK[:2] + (1,)
            data2 = make_data(rng.uniform(0, 1, 3) / np.array(NK))
            NK = NK_first
            Eind2 = gen_systems.bands(system, data2.kpoints_all)
            tabulate_on(data2, Eind2, good_kpoints(np.array(data2.E_K), Eind2, thresh), "second Data_K with the same tabulators")
            ctx.count("tabulator_reused_on_second_data")
        nmulti = sum(1 for ik in good_k for a, b in blocks_oracle(Eind[ik], thresh, kram) if b - a > 1)

        # ---- evaluate_k: the pre-defined quantities are tabulators with the default threshold --------------
        if info["omit_thresh"] and not kram:
            kpt = rng.uniform(0, 1, 3)
            Ek = gen_systems.bands(system, kpt[None, :])
            if good_kpoints(None, Ek, 1e-4):
                iband = None if rng.random() < 0.5 else sorted(int(i) for i in rng.choice(nb, size=int(rng.integers(1, nb + 1)),
                                                                                         replace=False))
                res = wb.evaluate_k(system, k=tuple(kpt), quantities=["energy", "band_gradients"], iband=iband)
                ibl = list(range(nb)) if iband is None else iband
                w3 = dict(wit, k=kpt, iband=iband)
                natv = max(float(np.max(np.abs(np.asarray(twin["Velocity"](data).data)))), 1e-6)
                judge_tabulated(ctx, "Energy", np.asarray(res["energy"])[None], scale, Ek, [0], ibl, 1e-4, False, w3, through="evaluate_k")
                judge_tabulated(ctx, "Velocity", np.asarray(res["band_gradients"])[None], natv, Ek, [0], ibl, 1e-4, False, w3,
                                through="evaluate_k")
                ctx.count("evaluate_k_default_thresh")

        # ---- the same through wannierberri.run (TabulatorAll) with the monitors on ------------------
        if rng.random() < (0.5 if ctx.thorough else 0.4):
            tmp = tempfile.mkdtemp(prefix="c15_", dir=workroot)
            try:
                run_case(ctx, rng, wb, calc, system, info, NK, ibands, ib_list, scale, wit, tmp)
            finally:
                shutil.rmtree(tmp, ignore_errors=True)
    finally:
        for m in mons:
            m.ctx = None
    if nmulti > 0:
        ctx.nontrivial(("datak", info["mode"], info["nb0"], info["copies"], NK, kram, thresh < 0, ib_form,
                        info["history"] != "as_built"))
    ctx.sample(dict(wit, E_first_k=E[0]))


def run_case(ctx, rng, wb, calc, system, info, NK, ibands, ib_list, scale, wit, tmp):
    """wannierberri.run on a Grid, a GridTetra or a Path: tabulators judged on the output, every band grouping made on the way
    (tabulators, tetra=False and tetra=True static calculators, a dynamic calculator) judged in situ by the monitors"""
    thresh, kram = info["thresh"], info["Kramers"]
    lo, hi = info["band_range"]
    tkw = thresh_kw(info)
    three_d = bool(info["periodic"][2])
    kind = ["Grid", "Grid", "GridTetra", "Path"][int(rng.integers(4))]     # on a GridTetra only integrals (its k-points are no regular mesh)
    if kind == "GridTetra" and not three_d:
        kind = "Grid"
    tab_mode = "path" if kind == "Path" else "grid"
    with warnings.catch_warnings():
        warnings.simplefilter("ignore")
        if kind == "Grid":
            nkdiv = tuple(int(x) for x in rng.integers(1, 3, 3))
            if not three_d:
                nkdiv = nkdiv[:2] + (1,)
            grid = wb.Grid(system, NKdiv=nkdiv, NKFFT=NK)
        elif kind == "GridTetra":
            grid = wb.grid.GridTetra(system, length=float(rng.uniform(3.0, 7.0)), NKFFT=int(rng.integers(1, 3)))
        else:
            npts = int(rng.integers(1, 9))
            K = rng.uniform(-0.5, 0.5, size=(npts, 3))
            if npts > 2:
                K[int(rng.integers(npts))] = np.array([0.0, 0.5, 0.0])[rng.permutation(3)]      # a point of high symmetry
            if not three_d:
                K[:, 2] = 0
            grid = wb.Path(system, k_list=K)
    wit = dict(wit, grid=kind)
    Ef = np.linspace(lo - 0.05 * scale, hi + 0.05 * scale, 7)
    calcs = {}
    if kind != "GridTetra":
        calcs["tab"] = calc.TabulatorAll({"Energy": calc.tabulate.Energy(**tkw),
                                          "E0": calc.tabulate.Energy(degen_thresh=-1),
                                          "V": calc.tabulate.Velocity(**tkw),
                                          "V0": calc.tabulate.Velocity(degen_thresh=-1)},
                                         mode=tab_mode, ibands=ibands)
    if kind != "Path":
        i0 = int(rng.integers(1, 5))
        Epart = np.ascontiguousarray(Ef[i0:])              # starts inside the bands: the Fermi-sea group matters
        if rng.random() < 0.2:
            Epart = np.ascontiguousarray(Ef[i0:i0 + 1])    # a single Fermi level
            ctx.count("run_single_fermi_level")
        calcs["cumdos"] = calc.static.CumDOS(Efermi=Ef, tetra=False, **tkw)
        calcs["cumdos_part"] = calc.static.CumDOS(Efermi=Epart, tetra=False, **tkw)
        calcs["cumdos_tetra"] = calc.static.CumDOS(Efermi=Epart, tetra=True, **tkw)
        if rng.random() < 0.5:
            calcs["holes_tetra"] = calc.static.CumDOS(Efermi=np.ascontiguousarray(Ef[:i0 + 1]), tetra=True, hole_like=True, **tkw)
        if rng.random() < 0.5:
            sel = selection_variant(rng, system.num_wann)[0]
            calcs["dos_tetra_sel"] = calc.static.DOS(Efermi=Ef, tetra=True, select_bands=sel, **tkw)
            calcs["dos_sel"] = calc.static.DOS(Efermi=Ef, tetra=False, select_bands=sel, **tkw)
        if rng.random() < 0.5:
            calcs["jdos"] = calc.dynamic.JDOS(Efermi=Ef[2:5], omega=np.linspace(0.0, hi - lo, 4), smr_fixed_width=0.1 * scale, **tkw)
    before = {k: ctx.counters.get(k, 0) for k in ("monitor_groups_calls", "monitor_tetra_groups_calls")}
    res = wb.run(system, grid=grid, calculators=calcs, parallel=False, fout_name=os.path.join(tmp, "res"),
                 suffix="", restart=False, print_progress_step_time=1e9)
    ctx.ev()
    if ctx.counters.get("monitor_groups_calls", 0) == before["monitor_groups_calls"]:
        ctx.violation("M-groups:wrapper_not_reached", "run() made no group request", wit)
    if kind != "Path" and ctx.counters.get("monitor_tetra_groups_calls", 0) == before["monitor_tetra_groups_calls"]:
        ctx.violation("M-tetra-groups:wrapper_not_reached", "run() with tetra=True calculators made no group request", wit)
    ctx.count("run_on_" + kind)
    if kind == "GridTetra":
        return
    tab = res.results["tab"]
    kpts = np.asarray(tab.kpoints)
    Erun = gen_systems.bands(system, kpts)
    E0 = np.asarray(tab.results["E0"].data)
    natV = max(float(np.max(np.abs(np.asarray(tab.results["V0"].data)))), 1e-6)
    ctx.close("run:Tabulator.Energy[thresh<0]!=independent_bands", E0, Erun[:, ib_list], rtol=1e-9, scale=scale,
              what="raw tabulated energies", witness=wit)
    good = [ik for ik in range(len(kpts)) if not has_thresh_tie(Erun[ik], thresh)]
    judge_tabulated(ctx, "Energy", tab.results["Energy"].data, scale, Erun, good, ib_list, thresh, kram, wit, through="run")
    judge_tabulated(ctx, "Velocity", tab.results["V"].data, natV, Erun, good, ib_list, thresh, kram, wit, through="run")
    ctx.count("run_TabulatorAll")


# ----------------------------------------------------------------------------------------------
#  kind 3 : wannierise with M-window
# ----------------------------------------------------------------------------------------------

class WindowMonitor:
    """M-window: wrapper installed under the name wannierise.py uses (`from ..utility import select_window_degen`)"""

    def __init__(self, orig):
        self.orig = orig
        self.ctx = None

    def __call__(self, E, *args, **kwargs):
        res = self.orig(E, *args, **kwargs)
        ctx = self.ctx
        if ctx is None:
            return res
        ctx.count("monitor_window_calls")
        names = ("thresh", "win_min", "win_max", "include_degen", "return_indices")
        kw = dict(thresh=1e-2, win_min=np.inf, win_max=-np.inf, include_degen=False, return_indices=False)
        kw.update(dict(zip(names, args)))
        kw.update(kwargs)
        E = np.asarray(E, dtype=float)
        if np.any(np.diff(E) < 0):
            ctx.count("monitor_window_unsorted_input")
            return res
        if has_thresh_tie(E, kw["thresh"]):
            ctx.count("monitor_window_skipped_tie")
            return res
        got = np.zeros(len(E), dtype=bool)
        if kw["return_indices"]:
            got[[int(i) for i in res]] = True
        else:
            got = np.asarray(res, dtype=bool)
        exps = [window_expected(E, kw["thresh"], kw["win_min"], kw["win_max"], kw["include_degen"], cl, ch)
                for cl in (True, False) for ch in (True, False)]
        if not (np.any(E == kw["win_min"]) or np.any(E == kw["win_max"])):
            exps = exps[:1]
        ctx.ev()
        comps = oracles.components(E, kw["thresh"], strict=True)
        inside = (E >= kw["win_min"]) & (E <= kw["win_max"])
        if any(c[1] - c[0] > 1 and 0 < inside[c[0]:c[1]].sum() < c[1] - c[0] for c in comps):
            ctx.count("monitor_window_cuts_multiplet")
        if not any(np.array_equal(got, e) for e in exps):
            ctx.violation("M-window:select_window_degen!=whole_components_of_window",
                          f"inside wannierise: got {got.astype(int)} expected {exps[0].astype(int)}",
                          dict(E=E, **{k: v for k, v in kw.items()}, insitu=True))
        return res


class KpointMonitor:
    """M-disentangle: what the disentanglement really works with - the `frozen` and `free` masks that wannierise hands to
    Wannierizer.add_kpoint for every k-point (after combining the two window selections and the explicit frozen states)"""

    def __init__(self):
        self.ctx = None
        self.seen = []

    def install(self, cls):
        orig = cls.add_kpoint
        mon = self

        def wrapped(self_, **kwargs):
            if mon.ctx is not None:
                mon.ctx.count("monitor_add_kpoint_calls")
                mon.seen.append((int(kwargs["ikirr"]), np.array(kwargs["frozen"], dtype=bool), np.array(kwargs["free"], dtype=bool)))
            return orig(self_, **kwargs)
        cls.add_kpoint = wrapped


def window_candidates(E, thresh, wmin, wmax, include_degen):
    """the oracle's selection; if a band lies exactly on an edge, the selections for either reading of that edge"""
    if np.any(E == wmin) or np.any(E == wmax):
        return [window_expected(E, thresh, wmin, wmax, include_degen, cl, ch) for cl in (True, False) for ch in (True, False)]
    return [window_expected(E, thresh, wmin, wmax, include_degen)]


def judge_disentangle_masks(ctx, seen, Eall, win, explicit, wit):
    """frozen = all multiplets entirely inside the frozen window (+ the explicitly frozen states), free = all multiplets that
    intersect the outer window, minus the frozen ones: no multiplet is split between frozen / free / left out by a window edge"""
    NK = len(Eall)
    ctx.ev()
    if sorted(ik for ik, _, _ in seen) != list(range(NK)):
        ctx.violation("M-disentangle:wrapper_not_reached", f"k-points handed to the Wannierizer: {[ik for ik, _, _ in seen]}", wit)
        return
    for ik, frozen, free in seen:
        E = Eall[ik]
        expl = np.zeros(len(E), dtype=bool)
        expl[explicit.get(ik, [])] = True
        w2 = dict(wit, ik=ik, E=E, frozen=frozen, free=free, insitu=True)
        ctx.ev()
        ctx.count("disentangle_masks_judged")
        f_ok = any(np.array_equal(frozen, f | expl) for f in window_candidates(E, 1e-2, win["froz_min"], win["froz_max"], False))
        if not f_ok:
            exp = window_expected(E, 1e-2, win["froz_min"], win["froz_max"], False) | expl
            ctx.violation("M-disentangle:frozen!=whole_multiplets_inside_frozen_window",
                          f"frozen {frozen.astype(int)} expected {exp.astype(int)}", w2)
            continue
        s_ok = any(np.array_equal(free, sel & ~frozen) for sel in window_candidates(E, 1e-2, win["outer_min"], win["outer_max"], True))
        if not s_ok:
            exp = window_expected(E, 1e-2, win["outer_min"], win["outer_max"], True) & ~frozen
            ctx.violation("M-disentangle:free!=whole_multiplets_meeting_outer_window_minus_frozen",
                          f"free {free.astype(int)} expected {exp.astype(int)}", w2)
            continue
        comps = oracles.components(E, 1e-2, strict=True)
        state3 = frozen.astype(int) * 2 + free.astype(int)
        inside_f = (E >= win["froz_min"]) & (E <= win["froz_max"])
        inside_o = (E >= win["outer_min"]) & (E <= win["outer_max"])
        if any(c[1] - c[0] > 1 and (0 < inside_f[c[0]:c[1]].sum() < c[1] - c[0] or 0 < inside_o[c[0]:c[1]].sum() < c[1] - c[0])
               for c in comps):
            ctx.count("disentangle_window_cuts_multiplet")
        if not np.any(expl):
            split = [c for c in comps if len(set(state3[c[0]:c[1]].tolist())) > 1]
            if split:
                ctx.violation("M-disentangle:multiplet_split", f"multiplets {split}: frozen {frozen.astype(int)} free {free.astype(int)}", w2)


def gen_windows(rng, Eall, m, exact_edge):
    """frozen window: the upper edge cuts the lowest multiplet of one k-point; outer window: the upper edge cuts the
    highest multiplet of some k-point; in half of the cases the lower edges of both cut a multiplet too.
    exact_edge: an edge put exactly on a band energy"""
    NK, NB = Eall.shape

    def between(ik, j):
        j = int(np.clip(j, 0, NB - 2))
        if exact_edge and rng.random() < 0.5:
            return float(Eall[ik, j + int(rng.integers(2))])
        return float(0.5 * (Eall[ik, j] + Eall[ik, j + 1]))
    ik0 = int(rng.integers(NK))
    froz_max = between(ik0, int(rng.integers(0, max(m - 1, 1))))
    if rng.random() < 0.5:
        froz_max = float(np.quantile(Eall[:, :NB // 2 + 1], rng.uniform(0.2, 0.9)))     # generic position
    ik1 = int(rng.integers(NK))
    outer_max = between(ik1, NB - m + int(rng.integers(0, max(m - 1, 1)))) if rng.random() < 0.7 else np.inf
    if rng.random() < 0.5:
        outer_min = between(int(rng.integers(NK)), int(rng.integers(0, max(m - 1, 1))))
        froz_min = outer_min
    else:
        outer_min = -np.inf
        froz_min = -np.inf if rng.random() < 0.5 else float(Eall.min() - 1.0)
    return dict(froz_min=froz_min, froz_max=froz_max, outer_min=outer_min, outer_max=outer_max)


def window_counts(Eall, win, explicit):
    """(largest number of frozen bands, smallest number of selected bands, frozen inside selected everywhere) by the oracle;
    with a band exactly on an edge the most demanding reading"""
    nfroz, nsel, nested = 0, Eall.shape[1], True
    for ik, E in enumerate(Eall):
        expl = np.zeros(len(E), dtype=bool)
        expl[explicit.get(ik, [])] = True
        fs = [f | expl for f in window_candidates(E, 1e-2, win["froz_min"], win["froz_max"], False)]
        ss = window_candidates(E, 1e-2, win["outer_min"], win["outer_max"], True)
        nfroz = max(nfroz, max(int(f.sum()) for f in fs))
        nsel = min(nsel, min(int(x.sum()) for x in ss))
        nested = nested and all(np.all(x[f]) for f in fs for x in ss)
    return nfroz, nsel, nested


def case_wannierise(ctx, rng, state):
    from wannierberri.w90files import WannierData, EIG, MMN, AMN
    from wannierberri.w90files.bkvectors import BKVectors
    mon = state["window_monitor"]
    kmon = state["kpoint_monitor"]
    nb0 = int(rng.integers(2, 4))
    m = int(rng.integers(2, 5))
    base = gen_systems.herm_system(rng, num_wann=nb0, radius=rng.uniform(1.0, 1.6), centers="zero")
    lat = base.real_lattice
    recip = 2 * np.pi * np.linalg.inv(lat).T
    mp = tuple(int(x) for x in rng.integers(2, 4, size=3))
    kpts = np.array([(i / mp[0], j / mp[1], k / mp[2]) for i in range(mp[0]) for j in range(mp[1]) for k in range(mp[2])])
    kpts = kpts[rng.permutation(len(kpts))]
    try:
        with warnings.catch_warnings():
            warnings.simplefilter("ignore")
            bk = BKVectors.from_kpoints(recip_lattice=recip, mp_grid=mp, kpoints_red=kpts)
    except RuntimeError:
        raise harness.Skip("no b-vector shells for this lattice")      # property C22, not this one
    Ham = base.get_R_mat("Ham")
    iR = base.rvec.iRvec
    step = float(rng.uniform(0.1, 0.7)) * 1e-2                   # default thresh of the windows is 1e-2
    delta = np.arange(m) * step                                   # chain multiplets of m bands
    NBfull = nb0 * m

    def HU(k):
        H = np.einsum("r,rab->ab", np.exp(2j * np.pi * (iR @ k)), Ham)
        H = 0.5 * (H + H.conj().T)
        H = np.kron(H, np.eye(m)) + np.kron(np.eye(nb0), np.diag(delta))
        return np.linalg.eigh(H)
    EU = [HU(k) for k in kpts]
    Efull = np.array([e for e, u in EU])
    NK = len(kpts)
    # history: bands taken out of the data set through the public WannierData.select_bands before wannierising (the cut may go
    # through a multiplet: the remaining bands are what the windows see)
    keep = np.arange(NBfull)
    band_sel = None
    if rng.random() < 0.25:
        b0 = int(rng.integers(0, m))
        b1 = NBfull - int(rng.integers(0, m))
        keep = np.arange(b0, b1)
        band_sel = ["range", "list", "bool"][int(rng.integers(3))]
        if band_sel == "bool" and not PENDING:
            band_sel = "list"
    Eall = Efull[:, keep]
    if any(has_thresh_tie(Eall[ik], 1e-2) for ik in range(NK)):
        raise harness.Skip("tie")
    exact_edge = bool(rng.random() < 0.2)
    win = gen_windows(rng, Eall, m, exact_edge)
    if not (win["outer_min"] <= win["froz_min"] < win["froz_max"] <= win["outer_max"]):
        raise harness.Skip("windows not nested")
    nothing_frozen = bool(rng.random() < 0.1)
    if nothing_frozen:
        win["froz_min"], win["froz_max"] = np.inf, -np.inf           # the documented defaults: empty frozen window
    # explicitly frozen states (list: at every k-point, dict: per k-point), taken from the bands the outer window selects everywhere
    explicit, frozen_states = {}, None
    sel_all = np.all([window_expected(Eall[ik], 1e-2, win["outer_min"], win["outer_max"], True, False, False) for ik in range(NK)], axis=0)
    if rng.random() < 0.25 and np.any(sel_all):
        cand = np.where(sel_all)[0]
        if rng.random() < 0.5:
            frozen_states = [int(cand[int(rng.integers(len(cand)))])]
            explicit = {ik: list(frozen_states) for ik in range(NK)}
        else:
            iks = rng.choice(NK, size=int(rng.integers(1, min(NK, 3) + 1)), replace=False)
            frozen_states = {int(ik): [int(cand[int(rng.integers(len(cand)))])] for ik in iks}
            explicit = dict(frozen_states)
    # domain of wannierise: frozen <= num_wann <= selected at every k-point, frozen inside selected (sized with the oracle)
    nfroz, nsel, nested = window_counts(Eall, win, explicit)
    if not nested:
        raise harness.Skip("windows not nested")
    if max(nfroz, 1) > nsel:
        raise harness.Skip("frozen window would hold more bands than the outer window somewhere")
    NW = int(rng.integers(max(nfroz, 1), nsel + 1))
    eig = EIG([e for e, u in EU])
    mmn = MMN([np.array([EU[ik][1].conj().T @ EU[bk.neighbours[ik][ib]][1] for ib in range(bk.NNB)]) for ik in range(NK)])
    proj = np.linalg.qr(rng.normal(size=(NBfull, NW)) + 1j * rng.normal(size=(NBfull, NW)))[0]
    amn = AMN([EU[ik][1].conj().T @ proj for ik in range(NK)])
    tmp = tempfile.mkdtemp(prefix="c15w_", dir=env.WORK if os.path.isdir(env.WORK) else "/tmp")
    wit = dict(nb0=nb0, copies=m, step=step, mp_grid=mp, NW=NW, bands_kept=(int(keep[0]), int(keep[-1]) + 1), select_bands_form=band_sel,
               frozen_states=frozen_states, exact_edge=exact_edge, **win)

    def run_wannierise(wd, win_, frozen_states_, explicit_, tag, **more):
        kw = dict(win_)
        if nothing_frozen and tag == "first" and rng.random() < 0.5:
            kw.pop("froz_min")
            kw.pop("froz_max")
        if not np.isfinite(kw["outer_min"]) and rng.random() < 0.5:
            kw.pop("outer_min")
        if not np.isfinite(kw["outer_max"]) and rng.random() < 0.5:
            kw.pop("outer_max")
        if frozen_states_ is not None:
            kw["frozen_states"] = frozen_states_
        mon.ctx = ctx
        kmon.ctx = ctx
        kmon.seen = []
        before = ctx.counters.get("monitor_window_calls", 0)
        try:
            with warnings.catch_warnings():
                warnings.simplefilter("ignore")
                wd.wannierise(num_iter=int(rng.integers(2, 6)), parallel=False, savechk=False, print_progress_every=1000,
                              sitesym=False, localise=bool(rng.random() < 0.5), **kw, **more)
        finally:
            mon.ctx = None
            kmon.ctx = None
        ncalls = ctx.counters.get("monitor_window_calls", 0) - before
        ctx.ev()
        ctx.count("wannierise_runs")
        w2 = dict(wit, call=tag, **win_)
        if ncalls != 2 * NK:
            ctx.violation("M-window:wrapper_not_reached", f"{ncalls} window selections observed for {NK} k-points", w2)
        judge_disentangle_masks(ctx, kmon.seen, Eall, win_, explicit_, w2)

    try:
        wd = WannierData()
        wd.seedname = os.path.join(tmp, "syn")
        wd.set_file("bkvec", bk)
        wd.set_file("eig", eig)
        wd.set_file("mmn", mmn)
        wd.set_file("amn", amn)
        if band_sel is not None:
            with warnings.catch_warnings():
                warnings.simplefilter("ignore")
                if band_sel == "range":
                    wd.select_bands(band_start=int(keep[0]), band_end=int(keep[-1]) + 1)
                elif band_sel == "list":
                    wd.select_bands(selected_bands=[int(i) for i in keep])
                else:
                    mask = np.zeros(NBfull, dtype=bool)
                    mask[keep] = True
                    try:
                        wd.select_bands(selected_bands=mask)
                    except AssertionError as e:
                        ctx.ev()
                        ctx.violation("WannierData.select_bands[boolean mask]:raises_AssertionError",
                                      f"documented form `array((NB,), dtype=bool)` raises: {e}", dict(wit, mask=mask))
                        return
            ctx.count("wannierise_after_select_bands")
            ctx.ev()
            if not all(np.array_equal(np.asarray(wd.eig.data[ik]), Eall[ik]) for ik in range(NK)):
                ctx.violation("WannierData.select_bands:eig!=kept_bands", f"bands {keep[0]}..{keep[-1]} asked for", wit)
                return
        run_wannierise(wd, win, frozen_states, explicit, "first")
        if frozen_states is not None:
            ctx.count("wannierise_explicit_frozen_states")
        if nothing_frozen:
            ctx.count("wannierise_nothing_frozen")
        if exact_edge:
            ctx.count("wannierise_window_edge_on_band")
        # the same data set wannierised again (restart from the gauge just found) with other windows: the selections of the
        # second request must be those of the second windows
        if rng.random() < 0.4:
            for _ in range(4):
                win2 = gen_windows(rng, Eall, m, exact_edge)
                if not (win2["outer_min"] <= win2["froz_min"] < win2["froz_max"] <= win2["outer_max"]):
                    continue
                nfroz2, nsel2, nested2 = window_counts(Eall, win2, {})
                if nested2 and max(nfroz2, 1) <= NW <= nsel2 and any(win2[k] != win[k] for k in win):
                    run_wannierise(wd, win2, None, {}, "second_call_other_windows", init="restart")
                    ctx.count("wannierise_second_call_other_windows")
                    break
        ctx.nontrivial(("wannierise", nb0, m, mp, NW, np.isfinite(win["outer_max"]), np.isfinite(win["froz_min"]),
                        np.isfinite(win["outer_min"]), band_sel is not None, frozen_states is not None))
        ctx.sample(wit)
    finally:
        shutil.rmtree(tmp, ignore_errors=True)


# ----------------------------------------------------------------------------------------------

def setup(ctx):
    env.import_wb()
    import wannierberri.grid.tetrahedron as T
    import wannierberri.utility as U
    import wannierberri.wannierisation.wannierise  # noqa: F401  (the module, not the function of the same name)
    W = sys.modules["wannierberri.wannierisation.wannierise"]
    state = dict(T=T, U=U, W=W)
    bm = BordersMonitor(T.get_borders)
    T.get_borders = bm                       # get_bands_in_range resolves the global at call time
    wm = WindowMonitor(W.select_window_degen)
    W.select_window_degen = wm               # the name bound by `from ..utility import select_window_degen`
    state["borders_monitor"] = bm
    state["window_monitor"] = wm
    km = KpointMonitor()
    km.install(W.Wannierizer)                # the class wannierise.py instantiates
    state["kpoint_monitor"] = km
    from wannierberri.data_K.data_K import Data_K
    gm = GroupsMonitor()
    gm.install(Data_K)                       # Data_K_R, Data_K_k, ... inherit the method
    tm = TetraGroupsMonitor()
    tm.install(T.TetraWeights)               # TetraWeightsParal inherits the method
    state["groups_monitor"] = gm
    state["tetra_groups_monitor"] = tm
    return state


def case(ctx, rng, idx, state):
    r = int(rng.integers(10))
    if r < 5:
        ctx.count("cases_arrays")
        case_arrays(ctx, rng, state)
    elif r < 8:
        ctx.count("cases_datak")
        case_datak(ctx, rng, state)
    else:
        ctx.count("cases_wannierise")
        case_wannierise(ctx, rng, state)


if __name__ == "__main__":
    harness.main(
        PROP, "exploration", case, setup_fn=setup,
        tiers=dict(quick=dict(cases=4000, shards=8, time=900), thorough=dict(cases=40000, shards=16, time=3000)),
        rule="sorted arrays of 1-5 multiplets of 1-6 bands and of 25-60 multiplets of 1-8 bands (inner gaps 0, 0.1, 0.5, 0.9 of the "
             "threshold incl. chains wider than the threshold, outer gaps 1.1-1000 thresholds, integer arrays with exact gap == thresh "
             "ties, thresh 0 and the default) stored plain, strided, read-only, as int64 or float32; windows with edges between bands, "
             "inside multiplets, on bands, infinite, empty or inverted; arguments as python / numpy scalars, by keyword, by position or "
             "left at the documented default; band selections as array / list / tuple, unordered, single, empty; synthetic "
             "TetraWeights(Paral) objects (corner energies spread below, around and above the threshold) asked for der 0, -1, 1, 2 and "
             "for a second Fermi array; spin/copy-multiplied Hermitian models, 3D and 2D, as built or after rvec.copy / do_ws_dist / npz "
             "round trip (exact, chained and split multiplets, Kramers pairs, two coinciding Kramers pairs, generic with a large "
             "threshold, the calculators' default threshold) for Data_K groups, tabulators (ibands in all forms, re-used on a second "
             "Data_K), evaluate_k and run() on Grid / GridTetra / Path with tetra, hole-like, band-selecting and dynamic calculators; "
             "synthetic Wannier90 data sets for wannierise (explicit frozen states, empty frozen window, bands removed first, second "
             "call with other windows).  Non-trivial: an array with a multiplet of >= 2 bands (distinct by multiplet sizes and mode), a "
             "window that cuts a multiplet (distinct by sizes, edge, include_degen), a model with a multi-band block at some k",
        assumptions=["oracle = connected components of gap <= thresh (gap < thresh for the windows), vlib/oracles.py:components",
                     "gaps within 1e-9 of the threshold are skipped for non-integer arrays; exact ties are judged on integer arrays "
                     "for get_borders / get_bands_in_range only (the property says 'at most')",
                     "Kramers grouping is judged for an even number of bands only",
                     "a band exactly on a window / range edge may be counted inside or outside",
                     "tetra groups: finite Emin / Emax of a static calculator (undocumented band-wise cut of the sea) are not generated "
                     "and not judged in situ",
                     "explicitly frozen states may split a multiplet (the user's request); only the window part is judged then",
                     "WannierData.select_bands with a boolean mask only with VERIF_C15_PENDING=1 (raises on the unchanged tree)"],
        required_counters=("get_borders", "get_borders_Kramers", "find_degen", "get_bands_in_range", "select_window_degen",
                           "window_cuts_multiplet", "get_bands_in_range_groups", "tabulator_Energy", "tabulator_Velocity",
                           "tabulator_blocks_with_several_bands", "run_TabulatorAll", "monitor_get_borders_calls",
                           "wannierise_runs", "monitor_window_calls", "monitor_window_cuts_multiplet",
                           # widening review
                           "arrays_with_100_bands_or_more", "window_cuts_multiplet_big_array", "storage_strided", "storage_readonly",
                           "storage_int64", "storage_float32", "get_borders_Kramers_negative_thresh",
                           "get_bands_in_range_default_thresh", "get_bands_in_range_one_span_only", "get_bands_in_range_select_empty",
                           "get_bands_in_range_select_list", "get_bands_in_range_select_tuple",
                           "get_bands_in_range_select_unordered_array", "select_window_degen_positional",
                           "tetra_groups_paral", "tetra_groups_tetra", "tetra_groups_object_reused", "tetra_groups_select_bands",
                           "tetra_sea_group_of_several_blocks", "groups_select_bands", "groups_default_arguments",
                           "groups_after_tabulation", "monitor_groups_calls", "monitor_tetra_groups_judged",
                           "tabulator_InvMass", "tabulator_reused_on_second_data", "evaluate_k_default_thresh",
                           "ibands_unordered_list", "ibands_tuple", "ibands_list", "ibands_single",
                           "history_rvec_copy", "history_ws_dist", "history_npz_roundtrip", "system_caches_warm", "system_2D",
                           "run_on_Grid", "run_on_GridTetra", "run_on_Path",
                           "monitor_add_kpoint_calls", "disentangle_masks_judged", "disentangle_window_cuts_multiplet",
                           "wannierise_second_call_other_windows", "wannierise_explicit_frozen_states",
                           "wannierise_after_select_bands", "wannierise_nothing_frozen", "wannierise_window_edge_on_band"),
    )
