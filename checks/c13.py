"""C13 - Fermi-level scans have the documented sea and surface semantics (REF + DIFF).

(a) CumDOS, Spin, AHC(internal), Morb(internal, non-additive formula) from run() against a sea sum
    written in the harness from independently diagonalised H(k) on the same k set (explicit Kubo
    sums, vlib/kspace.py): a band group (consecutive bands closer than degen_thresh; with
    degen_Kramers borders only at even indices) is counted whole at every Fermi level >= its mean
    energy; CumDOS is non-decreasing, 0 below all bands and num_wann above.
(b) StaticCalculator(Formula=F, fder=n) == n-th central difference of StaticCalculator(Formula=F, fder=0)
    on the Fermi grid extended by 1, 1, 2 points (count-1 grids: documented default spacing 1e-3).
(c) k_resolved calculators inside TabulatorAll: k-average == unresolved calculator, and the k-resolved
    CumDOS equals the harness count k-point by k-point.
(d) select_bands (surface calculators), non-additive formula (Morb), degen_Kramers; an exactly
    representable flat-band model pins the inclusive convention  E <= E_F  at first/interior/last grid point.
hole_like is NOT judged (undocumented, outside the property) - only an informational counter.
"""
import os
import sys

sys.path.insert(0, os.path.dirname(os.path.dirname(os.path.abspath(__file__))))
from vlib import env, harness, gen_systems, kspace, runner  # noqa: E402
import numpy as np  # noqa: E402

PROP = "C13"
TIE = 1e-7
EXTRA = {0: 0, 1: 1, 2: 1, 3: 2}


def setup(ctx):
    env.import_wb()
    return {}


# ----------------------------------------------------------------------------------------------
def build_system(rng, variant, dim):
    periodic = (True, True, True) if dim == 3 else (True, True, False)
    radius = rng.uniform(1.0, 1.8)
    if variant == "generic":
        nw = int(rng.integers(2, 6))
        return gen_systems.herm_system(rng, num_wann=nw, keys=("Ham", "SS"), periodic=periodic, radius=radius)
    # exact two-fold degeneracy of every band at every k: two identical copies, interleaved
    nw0 = int(rng.integers(1, 4))
    lattice = gen_systems.random_lattice(rng)
    iR = gen_systems.symmetric_R_set(rng, radius=radius, periodic=periodic)
    m0 = gen_systems.random_matrices(rng, iR, lattice, nw0, keys=("Ham",))
    Ham = np.zeros((len(iR), 2 * nw0, 2 * nw0), dtype=complex)
    for i in range(2):
        Ham[:, i::2, i::2] = m0["Ham"]
    SS = gen_systems.random_matrices(rng, iR, lattice, 2 * nw0, keys=("Ham", "SS"))["SS"]
    cred = np.repeat(gen_systems.random_centers(rng, nw0), 2, axis=0)
    return gen_systems.make_system(lattice, iR, dict(Ham=Ham, SS=SS), cred, periodic=periodic)


def split_grid(rng, NK):
    div, fft = [], []
    for n in NK:
        ds = [d for d in range(1, n + 1) if n % d == 0]
        d = int(ds[rng.integers(len(ds))])
        div.append(d)
        fft.append(n // d)
    return tuple(div), tuple(fft)


class SeaOracle:
    """cumulative sea quantities per k-point as a function of the number N of occupied bands"""

    def __init__(self, system, ks, thresh, kramers):
        E, U, V, S = kspace.eig_data(system, ks, with_spin=True)
        self.E = E
        nk, nw = E.shape
        self.nk, self.nw = nk, nw
        self.groups = [kspace.groups_of(E[k], thresh, kramers) for k in range(nk)]
        same = np.zeros((nk, nw, nw), dtype=bool)
        for k, gr in enumerate(self.groups):
            for b1, b2 in gr:
                same[k, b1:b2, b1:b2] = True
        self.means = [np.array([E[k, b1:b2].mean() for b1, b2 in gr]) for k, gr in enumerate(self.groups)]
        self.ends = [np.array([b2 for b1, b2 in gr]) for gr in self.groups]
        w = kspace.omega_pairs(E, V, same_group=same)
        Sd = np.real(np.einsum("knnc->knc", S))
        self.Sd = Sd
        Esum = E[:, :, None] + E[:, None, :]
        self.cum = dict(count=np.zeros((nk, nw + 1, 1)), spin=np.zeros((nk, nw + 1, 3)),
                        omega=np.zeros((nk, nw + 1, 3)), hplus=np.zeros((nk, nw + 1, 3)))
        for N in range(nw + 1):
            self.cum["count"][:, N, 0] = N
            self.cum["spin"][:, N] = Sd[:, :N].sum(axis=1)
            self.cum["omega"][:, N] = w[:, :N, N:].sum(axis=(1, 2))
            self.cum["hplus"][:, N] = (w[:, :N, N:] * Esum[:, :N, N:, None]).sum(axis=(1, 2))
        # natural scales (sum of absolute contributions) with floors taken from the inputs: a Berry curvature is
        # measured in units of the squared lattice constant, a spin in units of the SS amplitude
        a0sq = float(np.mean(np.linalg.norm(system.real_lattice, axis=1)) ** 2)
        self.scale = dict(count=float(nw), spin=float(np.abs(Sd).sum(axis=1).mean(axis=0).max()) + 0.1,
                          omega=float(np.abs(w).sum(axis=(1, 2)).mean(axis=0).max()) + a0sq,
                          hplus=float(np.abs(w * Esum[..., None]).sum(axis=(1, 2)).mean(axis=0).max())
                          + a0sq * float(np.abs(E).max()))

    def gap_tie(self, thresh, kramers):
        gaps = self.E[:, 1:] - self.E[:, :-1]
        if kramers:
            gaps = gaps[:, 1::2]  # only gaps at even borders matter
        return gaps.size > 0 and float(np.min(np.abs(gaps - thresh))) < TIE

    def ef_tie(self, Efs):
        allm = np.concatenate(self.means)
        return float(np.min(np.abs(allm[:, None] - np.asarray(Efs)[None, :]))) < TIE

    def nocc(self, Efs):
        Efs = np.asarray(Efs)
        out = np.zeros((self.nk, len(Efs)), dtype=int)
        for k in range(self.nk):
            idx = np.searchsorted(self.means[k], Efs, side="right")
            out[k] = np.where(idx > 0, self.ends[k][np.maximum(idx - 1, 0)], 0)
        return out

    def sea_k(self, what, Efs):
        N = self.nocc(Efs)
        return self.cum[what][np.arange(self.nk)[:, None], N]  # (nk, nEf, c)

    def sea(self, what, Efs):
        return self.sea_k(what, Efs).mean(axis=0)

    def selected_acc(self, what, Efs, sel):
        """k-average of  sum_{groups with mean <= Ef}  (fraction of the group selected) * trace_group"""
        Efs = np.asarray(Efs)
        sel = set(int(x) for x in sel)
        ncomp = 1 if what == "count" else 3
        acc = np.zeros((len(Efs), ncomp))
        sabs = np.zeros(ncomp)
        for k in range(self.nk):
            for (b1, b2), m in zip(self.groups[k], self.means[k]):
                frac = len(sel.intersection(range(b1, b2))) / (b2 - b1)
                if frac == 0:
                    continue
                val = np.array([float(b2 - b1)]) if what == "count" else self.Sd[k, b1:b2].sum(axis=0)
                acc[Efs >= m] += frac * val
                sabs += abs(frac * val)
        return acc / self.nk, float(sabs.max() / self.nk)


def central_diff(B, n, dE):
    if n == 1:
        return (B[2:] - B[:-2]) / (2 * dE)
    if n == 2:
        return (B[2:] + B[:-2] - 2 * B[1:-1]) / dE ** 2
    if n == 3:
        return (B[4:] - B[:-4] - 2 * (B[3:-1] - B[1:-3])) / (2 * dE ** 3)
    raise ValueError(n)


def flat_band_case(ctx, rng):
    """exactly representable energies and Fermi grids: a state exactly AT a Fermi level is counted there
    (documented bin = ceil((E-EFmin)/dE)), no matter whether it is the first, an interior or the last grid point"""
    from wannierberri import calculators as calc
    from wannierberri.grid import Grid
    e = np.array([0.5, 1.25, 1.25, 3.0])[: int(rng.integers(2, 5))]
    nw = len(e)
    lattice = np.diag([2.0, 2.5, 3.0])
    Ham = np.zeros((1, nw, nw), dtype=complex)
    Ham[0] = np.diag(e)
    s = gen_systems.make_system(lattice, np.array([[0, 0, 0]]), dict(Ham=Ham), rng.uniform(0, 1, (nw, 3)))
    grids = {"interior": 0.25 * np.arange(-1, 8), "last": 0.25 * np.arange(0, 6), "first": 0.5 + 0.25 * np.arange(0, 5),
             "single": np.array([1.25])}
    calcs = {k: calc.static.CumDOS(Efermi=Ef, save_mode="") for k, Ef in grids.items()}
    res = runner.run(s, Grid(s, NKdiv=1, NKFFT=(2, 1, 2)), calcs)
    for k, Ef in grids.items():
        exp = np.array([(e <= x).sum() for x in Ef], dtype=float)
        ctx.close("CumDOS!=count(E<=EF)[exact_tie]", res.results[k].data, exp, atol=1e-12, rtol=0, scale=nw,
                  what=f"flat bands {e.tolist()} on an exactly representable Fermi grid ({k})",
                  witness=dict(energies=e, Efermi=Ef, got=res.results[k].data))
    ctx.count("exact_tie_grids", len(grids))


# ----------------------------------------------------------------------------------------------
def case(ctx, rng, idx, state):
    from wannierberri import calculators as calc
    from wannierberri.calculators.static import StaticCalculator
    from wannierberri.formula import covariant as frml
    from wannierberri.grid import Grid

    variant = "generic" if rng.random() < 0.55 else "doubled"
    dim = 3 if rng.random() < 0.6 else 2
    system = build_system(rng, variant, dim)
    nw = system.num_wann
    if len(system.rvec.iRvec) < 3:
        raise harness.Skip("model without hopping (flat bands)")
    if dim == 3:
        NK = tuple(int(x) for x in rng.integers(2, 6, size=3))
    else:
        NK = tuple(int(x) for x in rng.integers(3, 10, size=2)) + (1,)
    NKdiv, NKFFT = split_grid(rng, NK)
    ks = kspace.grid_points(NK)
    thresh = [1e-4, 1e-4, 1e-3, 0.03, 0.3, 0.8][int(rng.integers(6))]
    kramers = bool(nw % 2 == 0 and rng.random() < (0.6 if variant == "doubled" else 0.3))
    orc = SeaOracle(system, ks, thresh, kramers)
    lo, hi = float(orc.E.min()), float(orc.E.max())
    width = float((orc.E.max(axis=0) - orc.E.min(axis=0)).max())

    # ---- Fermi grid: base grid Ef = E0 + dE*arange(nEf); every extended grid is a sub-grid of Ef2 ----------
    efmode = ["cover", "inside", "inside", "single"][int(rng.integers(4))]
    nEf = 1 if efmode == "single" else int([2, 3, 4, 6, 9, 14, 22][int(rng.integers(7))])
    if efmode == "cover":
        a, b = lo - rng.uniform(0.05, 1.0), hi + rng.uniform(0.05, 1.0)
        E0, dE = a, (b - a) / (nEf - 1)
    elif efmode == "inside":
        dE = float(np.exp(rng.uniform(np.log(2e-3), np.log(0.4))))
        E0 = rng.uniform(lo, hi) - dE * (nEf - 1) * rng.uniform(0, 1)
    else:
        dE, E0 = 1e-3, rng.uniform(lo - 0.2, hi + 0.2)
    Ef2 = E0 + dE * np.arange(-2, nEf + 2)
    Ef1 = Ef2[1:-1]
    Ef = Ef2[2:-2]
    ext = {0: Ef, 1: Ef1, 2: Ef1, 3: Ef2}
    if orc.gap_tie(thresh, kramers):
        raise harness.Skip("tie: band gap within 1e-7 of degen_thresh")
    if orc.ef_tie(Ef2):
        raise harness.Skip("tie: group energy within 1e-7 of a Fermi-bin edge")

    common = dict(degen_thresh=thresh, degen_Kramers=kramers, save_mode="")
    internal = {"external_terms": False}
    calcs = {
        "cumdos": calc.static.CumDOS(Efermi=Ef, **common),
        "spin": calc.static.Spin(Efermi=Ef, **common),
        "ahc": calc.static.AHC(Efermi=Ef, kwargs_formula=internal, constant_factor=1.0, **common),
        "morb": calc.static.Morb(Efermi=Ef, kwargs_formula=internal, constant_factor=1.0, **common),
        "ahc_hole": calc.static.AHC(Efermi=Ef, kwargs_formula=internal, constant_factor=1.0, hole_like=True, **common),
    }
    formulas = [("Identity", frml.Identity, {}), ("Omega", frml.Omega, internal), ("Spin", frml.Spin, {}),
                ("VelVel", frml.VelVel, {}), ("InvMass", frml.InvMass, {}), ("VelOmega", frml.VelOmega, internal),
                ("Morb_Hpm", frml.Morb_Hpm, internal), ("DerOmega", frml.DerOmega, internal)]
    fd_jobs = []
    for n in (1, 2, 3):
        for j in rng.choice(len(formulas), size=2, replace=False):
            name, F, kf = formulas[int(j)]
            ka, kb = f"fd{n}_{name}_surf", f"fd{n}_{name}_sea"
            calcs[ka] = StaticCalculator(Formula=F, fder=n, Efermi=Ef, kwargs_formula=kf, **common)
            calcs[kb] = StaticCalculator(Formula=F, fder=0, Efermi=ext[n], kwargs_formula=kf, **common)
            fd_jobs.append((n, name, ka, kb))
            if f"scale_{name}" not in calcs:  # natural scale of the formula: its sea values across the band range
                calcs[f"scale_{name}"] = StaticCalculator(Formula=F, fder=0, Efermi=np.linspace(lo - 0.05, hi + 0.05, 9), kwargs_formula=kf,
                                                          **common)
    calcs["dos"] = calc.static.DOS(Efermi=Ef, **common)
    calcs["cumdos_ext1"] = calc.static.CumDOS(Efermi=Ef1, **common)
    sel = np.sort(rng.choice(nw, size=int(rng.integers(1, nw + 1)), replace=False))
    calcs["dos_sel"] = calc.static.DOS(Efermi=Ef, select_bands=sel, **common)
    calcs["spin_sel"] = StaticCalculator(Formula=frml.Spin, fder=1, Efermi=Ef, select_bands=sel, **common)
    calcs["tab"] = calc.TabulatorAll({
        "cumdos": calc.static.CumDOS(Efermi=Ef, k_resolved=True, **common),
        "ahc": calc.static.AHC(Efermi=Ef, kwargs_formula=internal, constant_factor=1.0, k_resolved=True, **common),
        "morb": calc.static.Morb(Efermi=Ef, kwargs_formula=internal, constant_factor=1.0, k_resolved=True, **common),
        "dos": calc.static.DOS(Efermi=Ef, k_resolved=True, **common),
    }, mode="grid", save_mode="")

    grid = Grid(system, NKdiv=NKdiv, NKFFT=NKFFT)
    result = runner.run(system, grid, calcs)
    R = {k: (v.data if hasattr(v, "data") else v) for k, v in result.results.items()}
    vol = abs(np.linalg.det(system.real_lattice))
    wit = dict(variant=variant, dim=dim, nw=nw, NK=NK, NKdiv=NKdiv, NKFFT=NKFFT, degen_thresh=thresh,
               degen_Kramers=kramers, efmode=efmode, E0=E0, dE=dE, nEf=nEf, band_range=(lo, hi))

    # ---------------- (a) sea semantics against the harness sum ------------------------------------------
    cnt = orc.sea("count", Ef)[:, 0]
    ctx.close("CumDOS!=harness_sea_count", R["cumdos"], cnt, rtol=1e-10, scale=nw,
              what="CumDOS vs count of whole groups with mean energy <= EF", witness=dict(wit, got=R["cumdos"], exp=cnt))
    ctx.count("sea_cumdos")
    c = R["cumdos"]
    ctx.ev()
    if np.any(np.diff(c) < -1e-12):
        ctx.violation("CumDOS_decreasing", f"CumDOS decreases along the Fermi grid: {c}", wit)
    below, above = Ef < lo - TIE, Ef > hi + TIE
    if below.any():
        ctx.close("CumDOS!=0_below_all_bands", c[below], 0 * c[below], atol=1e-12, rtol=0, witness=wit)
        ctx.count("levels_below_all_bands", int(below.sum()))
    if above.any():
        ctx.close("CumDOS!=num_wann_above_all_bands", c[above], nw + 0 * c[above], atol=1e-10, rtol=0, witness=wit)
        ctx.count("levels_above_all_bands", int(above.sum()))
    ctx.close("Spin!=harness_sea_sum", R["spin"], orc.sea("spin", Ef), rtol=1e-8, scale=orc.scale["spin"],
              what="Spin vs sum over occupied groups of <n|S|n>", witness=wit)
    ctx.close("AHC_internal!=harness_sea_Kubo_sum", R["ahc"], orc.sea("omega", Ef) / vol, rtol=1e-8,
              scale=orc.scale["omega"] / vol, what="AHC(internal, constant_factor=1) vs Kubo sum over occupied groups",
              witness=wit)
    ctx.count("sea_spin_ahc")
    morb_exp = orc.sea("hplus", Ef) - 2 * Ef[:, None] * orc.sea("omega", Ef)
    morb_scale = orc.scale["hplus"] + 2 * np.abs(Ef).max() * orc.scale["omega"]
    ctx.close("Morb_internal!=harness_sea_Kubo_sum[non_additive]", R["morb"], morb_exp, rtol=1e-8, scale=morb_scale,
              what="Morb(internal, constant_factor=1) vs Kubo sum with the occupied manifold 0..N(k)", witness=wit)
    ctx.count("sea_morb_nonadditive")
    if kramers:
        ctx.count("cases_degen_Kramers")
    # informational only: hole_like is undocumented and NOT judged (outside the property)
    if np.abs(R["ahc"]).max() > 1e-6 * orc.scale["omega"] / vol:
        if np.allclose(R["ahc_hole"], -R["ahc"], rtol=1e-9, atol=1e-12 * orc.scale["omega"] / vol):
            ctx.count("not_judged:hole_like_nontetra_equals_minus_sea_observed")
        else:
            ctx.count("not_judged:hole_like_nontetra_other")

    # ---------------- (b) fder=n  ==  n-th central difference of the sea calculator -----------------------
    for n, name, ka, kb in fd_jobs:
        B = R[kb]
        exp = central_diff(B, n, dE)
        ctx.close(f"fder{n}!=central_difference_of_sea", R[ka], exp, rtol=1e-9,
                  scale=max(np.abs(B).max(), np.abs(R[f"scale_{name}"]).max()) / dE ** n,
                  what=f"StaticCalculator(Formula={name}, fder={n}) vs difference quotient of fder=0 on the extended grid",
                  witness=dict(wit, formula=name))
        ctx.count(f"fd_order{n}")
        if np.abs(exp).max() > 0:
            ctx.count("fd_nonzero")
    ctx.close("DOS!=central_difference_of_CumDOS", R["dos"], central_diff(R["cumdos_ext1"], 1, dE), rtol=1e-9,
              scale=nw / dE, what="DOS vs (CumDOS(E+dE)-CumDOS(E-dE))/2dE", witness=wit)
    dos_ref = central_diff(orc.sea("count", Ef1)[:, 0], 1, dE)
    ctx.close("DOS!=central_difference_of_harness_count", R["dos"], dos_ref, rtol=1e-9, scale=nw / dE, witness=wit)

    # ---------------- (d) select_bands on surface calculators ---------------------------------------------
    acc, sc = orc.selected_acc("count", Ef1, sel)
    ctx.close("DOS[select_bands]!=harness", R["dos_sel"], central_diff(acc[:, 0], 1, dE), rtol=1e-9, scale=nw / dE,
              what=f"DOS with select_bands={sel.tolist()} vs difference quotient of the selected-state count",
              witness=dict(wit, select_bands=sel))
    acc, sc = orc.selected_acc("spin", Ef1, sel)
    ctx.close("fder1_Spin[select_bands]!=harness", R["spin_sel"], central_diff(acc, 1, dE) / vol, rtol=1e-8,
              scale=max(sc, orc.scale["spin"]) / dE / vol, witness=dict(wit, select_bands=sel))
    ctx.count("select_bands")

    # ---------------- (c) k-resolved inside TabulatorAll ---------------------------------------------------
    tab = result.results["tab"]
    for key, sc in (("cumdos", nw), ("ahc", orc.scale["omega"] / vol), ("morb", morb_scale), ("dos", nw / dE)):
        dk = tab.results[key].data
        ctx.close(f"k_resolved_mean!=unresolved[{key}]", dk.mean(axis=0), R[key], rtol=1e-9, scale=sc,
                  what=f"k-average of the k_resolved {key} vs the unresolved calculator", witness=wit)
    kk = np.asarray(tab.kpoints)
    ii = np.rint(kk * np.array(NK)[None, :]).astype(int) % np.array(NK)[None, :]
    lin = (ii[:, 0] * NK[1] + ii[:, 1]) * NK[2] + ii[:, 2]
    ctx.ev()
    if len(set(lin.tolist())) != len(ks) or np.abs(kk * np.array(NK) - np.rint(kk * np.array(NK))).max() > 1e-9:
        ctx.violation("TabulatorAll_kpoints!=grid", "k-points of the tabulated result are not the NK grid", wit)
    else:
        exp_k = orc.sea_k("count", Ef)[lin, :, 0]
        ctx.close("k_resolved_CumDOS!=harness_count_per_k", tab.results["cumdos"].data, exp_k, rtol=1e-10, scale=nw,
                  what="k-resolved CumDOS vs harness count at each k-point", witness=wit)
        exp_k = orc.sea_k("omega", Ef)[lin] / vol
        ctx.close("k_resolved_AHC!=harness_Kubo_per_k", tab.results["ahc"].data, exp_k, rtol=1e-8,
                  scale=float(np.abs(exp_k).max()) + orc.scale["omega"] / vol, witness=wit)
    ctx.count("k_resolved")

    # ---------------- exact ties the property talks about --------------------------------------------------
    if idx % 4 == 0:
        flat_band_case(ctx, rng)

    # non-trivial: bands disperse and the scanned window really cuts the spectrum
    allm = np.concatenate(orc.means)
    inside = int(((allm > Ef2[0]) & (allm < Ef2[-1])).sum())
    if width > 0.2 and inside > 0:
        ctx.nontrivial((variant, dim, nw, NK, thresh, kramers, efmode, nEf))
        ctx.count("window_cuts_bands")
        if any(len(g) < nw for g in orc.groups):
            ctx.count("cases_with_degenerate_groups")
    ctx.sample(dict(wit, groups_k0=orc.groups[0], select_bands=sel))


if __name__ == "__main__":
    harness.main(
        PROP, "exploration", case, setup_fn=setup,
        tiers=dict(quick=dict(cases=800, shards=8, time=900), thorough=dict(cases=8000, shards=16, time=3000)),
        rule="random Hermitian models with generic SS (2-5 bands, or 1-3 bands doubled to exact two-fold degeneracy), 2D and 3D, "
             "grids up to 5^3 / 9^2 split at random into NKdiv x NKFFT, degen_thresh in {1e-4,1e-3,.03,.3,.8}, degen_Kramers, "
             "uniform Fermi grids (1-22 points, spacing 2e-3..1, covering the bands / inside them / single point); "
             "non-trivial = band width > 0.2 eV and at least one group energy inside the scanned window; "
             "distinct by (variant, dim, num_wann, NK, thresh, Kramers, grid mode, count)",
        assumptions=["oracle = explicit Fourier sums + numpy eigh + Kubo sums in vlib/kspace.py (no wannierberri code)",
                     "tie guard: band gaps >= 1e-7 away from degen_thresh, group energies >= 1e-7 away from all Fermi-bin edges "
                     "(else Skip); exact ties only in the flat-band sub-case with exactly representable numbers",
                     "hole_like is undocumented and not judged"],
        required_counters=("sea_cumdos", "sea_spin_ahc", "sea_morb_nonadditive", "fd_order1", "fd_order2", "fd_order3",
                           "fd_nonzero", "k_resolved", "select_bands", "cases_degen_Kramers", "exact_tie_grids",
                           "window_cuts_bands", "cases_with_degenerate_groups"),
    )
