"""C13 - Fermi-level scans have the documented sea and surface semantics (REF + DIFF).

(a) CumDOS, Spin, AHC(internal), Morb(internal, non-additive formula) from run() against a sea sum
    written in the harness from independently diagonalised H(k) on the same k set (explicit Kubo
    sums, vlib/kspace.py): a band group (consecutive bands closer than degen_thresh; with
    degen_Kramers borders only at even indices) is counted whole at every Fermi level >= its mean
    energy; CumDOS is non-decreasing, 0 below all bands and num_wann above.
(b) StaticCalculator(Formula=F, fder=n) == n-th central difference of StaticCalculator(Formula=F, fder=0)
    on the Fermi grid extended by 1, 1, 2 points (count-1 grids: documented default spacing 1e-3).
(c) k_resolved calculators inside TabulatorAll: k-average == unresolved calculator, and the k-resolved
    CumDOS equals the harness count k-point by k-point.
(d) select_bands (surface calculators), non-additive formula (Morb), degen_Kramers; an exactly
    representable flat-band model pins the inclusive convention  E <= E_F  at first/interior/last grid point.
hole_like is NOT judged (undocumented, outside the property) - only an informational counter.

Widened after the seeded-change review (classes drawn by rng inside `case`; every one has its own counter):
  models    : m = 3, 4 identical copies (exact 3-/4-fold multiplets), "chain" multiplets (copies shifted by 0.45 / 0.8 / 1.6 / 4 times
              degen_thresh, so that neighbours are closer than the threshold but the ends are not), a constant energy offset
              (0, -7.5, +30 eV: "any offset"), 3D grids with one direction of size 1 or 7-8
  histories : the system first goes through public API calls (gen_systems.history_variant: rvec.copy / do_ws_dist / npz round trip),
              has all its cached properties touched (monitors.warm_caches), and the SAME calculator objects are asked a second time on a
              grid object with another NKdiv x NKFFT split of the same mesh (same k set): same answers, earlier results untouched
  options   : degen_thresh left at its documented default, 0 and negative (never degenerate); constant_factor (linear);
              Fermi grids of 100 / 128 / 257 points and windows completely above / below the bands;
              select_bands in permuted order, selecting everything (== no selection), nothing (== 0), with fder = 2, 3, with any formula
              (selection + complement == no selection), k_resolved; tetra=True only differentially (k-average of k_resolved == unresolved,
              selection + complement == no selection; the tetrahedron weights themselves belong to C14)
  exact ties: integer-dtype Fermi array, a degenerate group whose MEAN is exactly on a Fermi level, DOS (fder=1) on exact ties
  pending   : select_bands / Efermi given as tuple or list (env VERIF_C13_PENDING=1; fires on the unchanged tree, see the report)
"""
import os
import sys

sys.path.insert(0, os.path.dirname(os.path.dirname(os.path.abspath(__file__))))
from vlib import env, harness, gen_systems, kspace, runner, monitors  # noqa: E402
import numpy as np  # noqa: E402

PROP = "C13"
TIE = 1e-7
EXTRA = {0: 0, 1: 1, 2: 1, 3: 2}
PENDING = os.environ.get("VERIF_C13_PENDING", "0") == "1"


def setup(ctx):
    env.import_wb()
    return {}


# ----------------------------------------------------------------------------------------------
def build_system(rng, variant, dim, thresh=1e-4, offset=0.0):
    """generic: random Hermitian model.  doubled / multi: m = 2 / 3-4 identical decoupled copies, interleaved (exact m-fold degeneracy of
    every band at every k).  chain: the copies are shifted rigidly by i*delta with delta = 0.45, 0.8, 1.6 or 4 |degen_thresh| (0.8 with
    m >= 3: neighbours closer than the threshold, the ends further apart).  offset: constant added to all on-site energies."""
    periodic = (True, True, True) if dim == 3 else (True, True, False)
    radius = rng.uniform(1.0, 1.8)
    lattice = gen_systems.random_lattice(rng)
    iR = gen_systems.symmetric_R_set(rng, radius=radius, periodic=periodic)
    i0 = int(np.where(np.all(np.asarray(iR) == 0, axis=1))[0][0])
    info = dict(m=1, delta=0.0)
    if variant == "generic":
        nw = int(rng.integers(2, 6))
        mats = gen_systems.random_matrices(rng, iR, lattice, nw, keys=("Ham", "SS"))
        Ham, SS = np.array(mats["Ham"]), mats["SS"]
        cred = gen_systems.random_centers(rng, nw)
    else:
        m = 2 if variant == "doubled" else int(rng.integers(3, 5)) if variant == "multi" else int(rng.integers(2, 5))
        nw0 = int(rng.integers(1, 4 if m == 2 else 3))
        m0 = gen_systems.random_matrices(rng, iR, lattice, nw0, keys=("Ham",))
        Ham = np.zeros((len(iR), m * nw0, m * nw0), dtype=complex)
        delta = 0.0
        if variant == "chain":
            delta = abs(thresh) * [0.45, 0.8, 1.6, 4.0][int(rng.integers(4))]
        for i in range(m):
            Ham[:, i::m, i::m] = m0["Ham"]
            Ham[i0, i::m, i::m] += i * delta * np.eye(nw0)
        SS = gen_systems.random_matrices(rng, iR, lattice, m * nw0, keys=("Ham", "SS"))["SS"]
        cred = np.repeat(gen_systems.random_centers(rng, nw0), m, axis=0)
        nw = m * nw0
        info = dict(m=m, delta=delta)
    Ham[i0] += offset * np.eye(nw)
    return gen_systems.make_system(lattice, iR, dict(Ham=Ham, SS=SS), cred, periodic=periodic), info


def split_grid(rng, NK):
    div, fft = [], []
    for n in NK:
        ds = [d for d in range(1, n + 1) if n % d == 0]
        d = int(ds[rng.integers(len(ds))])
        div.append(d)
        fft.append(n // d)
    return tuple(div), tuple(fft)


class SeaOracle:
    """cumulative sea quantities per k-point as a function of the number N of occupied bands"""

    def __init__(self, system, ks, thresh, kramers):
        E, U, V, S = kspace.eig_data(system, ks, with_spin=True)
        self.E = E
        nk, nw = E.shape
        self.nk, self.nw = nk, nw
        self.groups = [kspace.groups_of(E[k], thresh, kramers) for k in range(nk)]
        same = np.zeros((nk, nw, nw), dtype=bool)
        for k, gr in enumerate(self.groups):
            for b1, b2 in gr:
                same[k, b1:b2, b1:b2] = True
        self.means = [np.array([E[k, b1:b2].mean() for b1, b2 in gr]) for k, gr in enumerate(self.groups)]
        self.ends = [np.array([b2 for b1, b2 in gr]) for gr in self.groups]
        w = kspace.omega_pairs(E, V, same_group=same)
        Sd = np.real(np.einsum("knnc->knc", S))
        self.Sd = Sd
        Esum = E[:, :, None] + E[:, None, :]
        self.cum = dict(count=np.zeros((nk, nw + 1, 1)), spin=np.zeros((nk, nw + 1, 3)),
                        omega=np.zeros((nk, nw + 1, 3)), hplus=np.zeros((nk, nw + 1, 3)))
        for N in range(nw + 1):
            self.cum["count"][:, N, 0] = N
            self.cum["spin"][:, N] = Sd[:, :N].sum(axis=1)
            self.cum["omega"][:, N] = w[:, :N, N:].sum(axis=(1, 2))
            self.cum["hplus"][:, N] = (w[:, :N, N:] * Esum[:, :N, N:, None]).sum(axis=(1, 2))
        # natural scales (sum of absolute contributions) with floors taken from the inputs: a Berry curvature is
        # measured in units of the squared lattice constant, a spin in units of the SS amplitude
        a0sq = float(np.mean(np.linalg.norm(system.real_lattice, axis=1)) ** 2)
        self.scale = dict(count=float(nw), spin=float(np.abs(Sd).sum(axis=1).mean(axis=0).max()) + 0.1,
                          omega=float(np.abs(w).sum(axis=(1, 2)).mean(axis=0).max()) + a0sq,
                          hplus=float(np.abs(w * Esum[..., None]).sum(axis=(1, 2)).mean(axis=0).max())
                          + a0sq * float(np.abs(E).max()))

    def gap_tie(self, thresh, kramers):
        gaps = self.E[:, 1:] - self.E[:, :-1]
        if kramers:
            gaps = gaps[:, 1::2]  # only gaps at even borders matter
        return gaps.size > 0 and float(np.min(np.abs(gaps - thresh))) < TIE

    def ef_tie(self, Efs):
        allm = np.concatenate(self.means)
        return float(np.min(np.abs(allm[:, None] - np.asarray(Efs)[None, :]))) < TIE

    def nocc(self, Efs):
        Efs = np.asarray(Efs)
        out = np.zeros((self.nk, len(Efs)), dtype=int)
        for k in range(self.nk):
            idx = np.searchsorted(self.means[k], Efs, side="right")
            out[k] = np.where(idx > 0, self.ends[k][np.maximum(idx - 1, 0)], 0)
        return out

    def sea_k(self, what, Efs):
        N = self.nocc(Efs)
        return self.cum[what][np.arange(self.nk)[:, None], N]  # (nk, nEf, c)

    def sea(self, what, Efs):
        return self.sea_k(what, Efs).mean(axis=0)

    def selected_acc(self, what, Efs, sel):
        """k-average of  sum_{groups with mean <= Ef}  (fraction of the group selected) * trace_group"""
        Efs = np.asarray(Efs)
        sel = set(int(x) for x in sel)
        ncomp = 1 if what == "count" else 3
        acc = np.zeros((len(Efs), ncomp))
        sabs = np.zeros(ncomp)
        for k in range(self.nk):
            for (b1, b2), m in zip(self.groups[k], self.means[k]):
                frac = len(sel.intersection(range(b1, b2))) / (b2 - b1)
                if frac == 0:
                    continue
                val = np.array([float(b2 - b1)]) if what == "count" else self.Sd[k, b1:b2].sum(axis=0)
                acc[Efs >= m] += frac * val
                sabs += abs(frac * val)
        return acc / self.nk, float(sabs.max() / self.nk)


def central_diff(B, n, dE):
    if n == 1:
        return (B[2:] - B[:-2]) / (2 * dE)
    if n == 2:
        return (B[2:] + B[:-2] - 2 * B[1:-1]) / dE ** 2
    if n == 3:
        return (B[4:] - B[:-4] - 2 * (B[3:-1] - B[1:-3])) / (2 * dE ** 3)
    raise ValueError(n)


def flat_band_case(ctx, rng):
    """exactly representable energies and Fermi grids: a state exactly AT a Fermi level is counted there
    (documented bin = ceil((E-EFmin)/dE)), no matter whether it is the first, an interior or the last grid point.
    With degen_thresh = 1 the three lowest bands 0.5, 1.25, 1.25 form one group whose MEAN is exactly 1.0 (a grid point): the group is
    counted whole from there on.  The grid may have integer dtype.  DOS (fder=1) = difference quotient of that count."""
    from wannierberri import calculators as calc
    from wannierberri.grid import Grid
    e = np.array([0.5, 1.25, 1.25, 3.0])[: int(rng.integers(2, 5))]
    nw = len(e)
    thresh = [1e-4, 1.0][int(rng.integers(2))]
    lattice = np.diag([2.0, 2.5, 3.0])
    Ham = np.zeros((1, nw, nw), dtype=complex)
    Ham[0] = np.diag(e)
    s = gen_systems.make_system(lattice, np.array([[0, 0, 0]]), dict(Ham=Ham), rng.uniform(0, 1, (nw, 3)))
    grids = {"interior": 0.25 * np.arange(-1, 8), "last": 0.25 * np.arange(0, 6), "first": 0.5 + 0.25 * np.arange(0, 5),
             "single": np.array([1.25]), "int": np.arange(0, 5), "mean_first": 1.0 + 0.25 * np.arange(0, 4),
             "mean_last": 0.25 * np.arange(0, 5)}
    groups = kspace.groups_of(e, thresh)
    means = np.array([e[b1:b2].mean() for b1, b2 in groups])
    sizes = np.array([b2 - b1 for b1, b2 in groups], dtype=float)

    def count(x):
        return np.array([sizes[means <= xx].sum() for xx in np.atleast_1d(x)], dtype=float)

    calcs = {k: calc.static.CumDOS(Efermi=Ef, degen_thresh=thresh, save_mode="") for k, Ef in grids.items()}
    calcs.update({"dos_" + k: calc.static.DOS(Efermi=Ef, degen_thresh=thresh, save_mode="") for k, Ef in grids.items()})
    res = runner.run(s, Grid(s, NKdiv=1, NKFFT=(2, 1, 2)), calcs)
    for k, Ef in grids.items():
        wit = dict(energies=e, degen_thresh=thresh, Efermi=Ef, dtype=str(Ef.dtype), groups=groups, group_means=means)
        ctx.close("CumDOS!=count(E<=EF)[exact_tie]", res.results[k].data, count(Ef), atol=1e-12, rtol=0, scale=nw,
                  what=f"flat bands {e.tolist()} (degen_thresh={thresh}) on an exactly representable Fermi grid ({k})",
                  witness=dict(wit, got=res.results[k].data))
        dE = float(Ef[1] - Ef[0]) if len(Ef) > 1 else 1e-3
        exp = (count(Ef + dE) - count(Ef - dE)) / (2 * dE)
        ctx.close("DOS!=difference_quotient_of_count[exact_tie]", res.results["dos_" + k].data, exp, rtol=1e-12, scale=nw / dE,
                  what=f"DOS of flat bands {e.tolist()} (degen_thresh={thresh}) on an exactly representable Fermi grid ({k})",
                  witness=dict(wit, got=res.results["dos_" + k].data))
    ctx.count("exact_tie_grids", len(grids))
    if thresh == 1.0 and nw >= 3:
        ctx.count("exact_tie_group_mean_on_grid")
    ctx.count("exact_tie_integer_dtype_grid")


# ----------------------------------------------------------------------------------------------
def direct_ranges_case(ctx, rng):
    """tetrahedron.get_bands_in_range / get_bands_below_range called directly, including the arguments that the tetra=False calculators never
    pass (Ebandmin / Ebandmax: the span of each band over a k-cell; select_bands in any order; degen_thresh <= 0): every group returned
    is a whole group (borders only where the centre energies differ by more than the threshold, with degen_Kramers only at even indices), a
    group is returned iff its span intersects the window and it holds a selected band, and the bands below the window together with
    the groups in the window account for every band whose span lies below the upper edge exactly once."""
    from wannierberri.grid.tetrahedron import get_bands_in_range, get_bands_below_range
    for _ in range(12):
        nb = int(rng.integers(1, 9))
        gaps = rng.choice([0.0, 2e-5, 0.007, 0.05, 0.4, 1.1], size=nb)
        E = np.cumsum(gaps) + rng.uniform(-3, 3)
        thresh = float([1e-4, 1e-3, 0.03, 0.3, 0.8, 0.0, -1.0][int(rng.integers(7))])
        if np.min(np.abs(np.diff(E) - thresh), initial=1.0) < TIE:
            continue
        kramers = bool(nb % 2 == 0 and rng.random() < 0.4)
        spans = bool(rng.random() < 0.5)
        # spans of the bands over the cell: monotone like the centre energies (band n lies below band n+1 at every corner)
        lo_b = E - (np.sort(rng.uniform(0, 0.5, nb))[::-1] if spans else 0)
        hi_b = E + (np.sort(rng.uniform(0, 0.5, nb)) if spans else 0)
        emin = rng.uniform(E[0] - 1, E[-1] + 1)
        emax = emin + [0.0, 0.01, 0.3, 2.0, 10.0][int(rng.integers(5))]
        if min(np.abs(hi_b - emin).min(), np.abs(lo_b - emax).min()) < TIE:
            continue
        sel = None
        if rng.random() < 0.5:
            sel = rng.permutation(nb)[: int(rng.integers(1, nb + 1))]
        kw = dict(degen_thresh=thresh, degen_Kramers=kramers, select_bands=sel)
        if spans:
            kw.update(Ebandmin=lo_b, Ebandmax=hi_b)
        got = [tuple(int(x) for x in g) for g in get_bands_in_range(emin, emax, E, **kw)]
        groups = kspace.groups_of(E, thresh, kramers)
        exp = [g for g in groups if hi_b[g[0]:g[1]].max() >= emin and lo_b[g[0]:g[1]].min() <= emax
               and (sel is None or len(set(range(*g)) & set(int(x) for x in sel)) > 0)]
        wit = dict(E=E, Ebandmin=lo_b if spans else None, Ebandmax=hi_b if spans else None, emin=emin, emax=emax, degen_thresh=thresh,
                   degen_Kramers=kramers, select_bands=sel, got=got, expected=exp)
        ctx.ev()
        if got != exp:
            ctx.violation("get_bands_in_range!=whole_groups_intersecting_window", f"got {got}, expected {exp}", wit)
        nbelow = int(get_bands_below_range(emin, E, Ebandmax=hi_b) if spans else get_bands_below_range(emin, E))
        ctx.ev()
        if nbelow != int((hi_b < emin).sum()):
            ctx.violation("get_bands_below_range!=count_of_bands_below", f"got {nbelow}, expected {int((hi_b < emin).sum())}", wit)
        if sel is None:
            # the sea bookkeeping of the calculators: deep block (0, min(nbelow, first group in range)) + groups in range
            deep = min(nbelow, got[0][0]) if got else nbelow
            covered = list(range(deep)) + [b for g in got for b in range(*g)]
            ctx.ev()
            if sorted(covered) != list(range(len(covered))) or any(b not in covered for b in range(nb) if lo_b[b] <= emax):
                ctx.violation("sea_blocks_do_not_account_for_every_band_once", f"deep block (0,{deep}) + groups {got}", wit)
        ctx.count("direct_band_ranges")
        if spans:
            ctx.count("direct_band_ranges_with_spans")


def pending_forms(ctx, system, grid, Ef, sel, common, ref, scale, wit):
    """select_bands given as tuple or list instead of ndarray (the repository's own tests pass select_bands as a tuple): fired on the
    unchanged tree (TypeError in utility.weight_select_bands for groups touching the first/last band), repaired in 3763196e.
    Efermi as list/tuple (AttributeError in StaticCalculator.__init__ for tetra=False) only with VERIF_C13_PENDING=1."""
    from wannierberri import calculators as calc
    forms = {"sel_tuple": dict(Efermi=Ef, select_bands=tuple(int(x) for x in sel)),
             "sel_list": dict(Efermi=Ef, select_bands=[int(x) for x in sel])}
    if PENDING:   # Efermi as list / tuple: StaticCalculator.__init__ raises for tetra=False (side observation, no result to judge)
        forms.update(ef_list=dict(Efermi=[float(x) for x in Ef], select_bands=sel), ef_tuple=dict(Efermi=tuple(float(x) for x in Ef), select_bands=sel))
    for k, kw in forms.items():
        try:
            r = runner.run(system, grid, {k: calc.static.DOS(**kw, **common)}).results[k].data
        except (TypeError, AttributeError) as e:
            ctx.ev()
            types = ", ".join(f"{a}: {type(b).__name__}" for a, b in kw.items())
            ctx.violation(f"DOS[{k}]:raises_{type(e).__name__}", f"DOS({types}) raises {e!r}; the ndarray form of the same arguments works",
                          dict(wit, select_bands=sel))
            continue
        ctx.close(f"DOS[{k}]!=DOS[ndarray arguments]", r, ref, rtol=1e-12, scale=scale, witness=dict(wit, select_bands=sel))
    ctx.count("pending_argument_forms")


def case(ctx, rng, idx, state):
    from wannierberri import calculators as calc
    from wannierberri.calculators.static import StaticCalculator
    from wannierberri.formula import covariant as frml
    from wannierberri.grid import Grid

    variant = ["generic", "generic", "generic", "generic", "doubled", "doubled", "doubled", "multi", "chain", "chain"][int(rng.integers(10))]
    dim = 3 if rng.random() < 0.6 else 2
    # degen_thresh: documented default (not passed), explicit values, and for models without exact degeneracies also 0 and a negative
    # value (bands are never degenerate)
    tmode = "default" if rng.random() < (0.4 if variant == "chain" else 0.12) else "explicit"
    thresh = 1e-4 if tmode == "default" else [1e-4, 1e-4, 1e-3, 0.03, 0.3, 0.8][int(rng.integers(6))]
    if variant == "generic" and rng.random() < 0.12:
        tmode, thresh = "nonpositive", [0.0, -1.0][int(rng.integers(2))]
    offset = [0.0, 0.0, 0.0, -7.5, 30.0][int(rng.integers(5))]
    if variant == "chain" and offset > 10:
        # eigenvectors of two bands g apart carry an error ~ macheps*|H|/g: with g = 1.6e-4 and |H| = 30 the band-resolved spin would come
        # within 2 decades of the tolerances below; the chain models take the moderate offset instead
        offset = -7.5
    system, info = build_system(rng, variant, dim, thresh=thresh if thresh > 0 else 1e-4, offset=offset)
    # ---- the system is brought into a state reached through public API calls before the calculators see it -----------------
    hist = "as_built"
    if rng.random() < 0.45:
        system, hist = gen_systems.history_variant(rng, system, which=gen_systems.HISTORIES[1 + int(rng.integers(4))], workdir=env.WORK)
        ctx.count("history:" + hist)
    warm = bool(rng.random() < 0.3)
    if warm:
        monitors.warm_caches(system)
        ctx.count("history:warm_caches")
    nw = system.num_wann
    if len(system.rvec.iRvec) < 3:
        raise harness.Skip("model without hopping (flat bands)")
    if dim == 3:
        NK = [int(x) for x in rng.integers(2, 6, size=3)]
        u = rng.random()
        if u < 0.15:
            NK[int(rng.integers(3))] = 1          # a periodic direction sampled by one point
        elif u < 0.25:
            NK = sorted(NK)
            NK[0], NK[2] = min(NK[0], 3), int(rng.integers(7, 9))   # anisotropic, one long direction
            NK = [NK[i] for i in rng.permutation(3)]
        NK = tuple(NK)
    else:
        NK = tuple(int(x) for x in rng.integers(3, 10, size=2)) + (1,)
    NKdiv, NKFFT = split_grid(rng, NK)
    ks = kspace.grid_points(NK)
    kramers = bool(nw % 2 == 0 and rng.random() < (0.3 if variant == "generic" else 0.5))
    orc = SeaOracle(system, ks, thresh, kramers)
    lo, hi = float(orc.E.min()), float(orc.E.max())
    width = float((orc.E.max(axis=0) - orc.E.min(axis=0)).max())

    # ---- Fermi grid: base grid Ef = E0 + dE*arange(nEf); every extended grid is a sub-grid of Ef2 ----------
    efmode = ["cover", "inside", "inside", "single", "cover", "inside", "inside", "single", "outside"][int(rng.integers(9))]
    nEf = 1 if efmode == "single" else int([2, 3, 4, 6, 9, 14, 22][int(rng.integers(7))])
    if efmode != "single" and rng.random() < 0.06:
        nEf = int([100, 128, 257][int(rng.integers(3))])
    if efmode == "cover":
        a, b = lo - rng.uniform(0.05, 1.0), hi + rng.uniform(0.05, 1.0)
        E0, dE = a, (b - a) / (nEf - 1)
    elif efmode == "inside":
        dE = float(np.exp(rng.uniform(np.log(2e-3), np.log(0.4))))
        if nEf >= 100:
            dE = min(dE, 2.0 * (hi - lo + 0.1) / nEf)
        E0 = rng.uniform(lo, hi) - dE * (nEf - 1) * rng.uniform(0, 1)
    elif efmode == "outside":   # the whole (extended) window above / below all bands
        dE = float(np.exp(rng.uniform(np.log(2e-3), np.log(0.4))))
        E0 = hi + 2.5 * dE + rng.uniform(0.01, 1.0) if rng.random() < 0.5 else lo - (nEf + 1.5) * dE - rng.uniform(0.01, 1.0)
    else:
        dE, E0 = 1e-3, rng.uniform(lo - 0.2, hi + 0.2)
    Ef2 = E0 + dE * np.arange(-2, nEf + 2)
    Ef1 = Ef2[1:-1]
    Ef = Ef2[2:-2]
    ext = {0: Ef, 1: Ef1, 2: Ef1, 3: Ef2}
    if orc.gap_tie(thresh, kramers):
        raise harness.Skip("tie: band gap within 1e-7 of degen_thresh")
    if orc.ef_tie(Ef2):
        raise harness.Skip("tie: group energy within 1e-7 of a Fermi-bin edge")

    common = dict(degen_Kramers=kramers, save_mode="")
    if tmode != "default":
        common["degen_thresh"] = thresh
    ctx.count("degen_thresh:" + tmode)
    internal = {"external_terms": False}
    cf = float(rng.choice([-1.0, 1.0]) * np.exp(rng.uniform(np.log(1e-3), np.log(1e3))))
    calcs = {
        "cumdos": calc.static.CumDOS(Efermi=Ef, **common),
        "spin": calc.static.Spin(Efermi=Ef, **common),
        "ahc": calc.static.AHC(Efermi=Ef, kwargs_formula=internal, constant_factor=1.0, **common),
        "morb": calc.static.Morb(Efermi=Ef, kwargs_formula=internal, constant_factor=1.0, **common),
        "ahc_hole": calc.static.AHC(Efermi=Ef, kwargs_formula=internal, constant_factor=1.0, hole_like=True, **common),
        "ahc_cf": calc.static.AHC(Efermi=Ef, kwargs_formula=internal, constant_factor=cf, **common),
    }
    formulas = [("Identity", frml.Identity, {}), ("Omega", frml.Omega, internal), ("Spin", frml.Spin, {}),
                ("VelVel", frml.VelVel, {}), ("InvMass", frml.InvMass, {}), ("VelOmega", frml.VelOmega, internal),
                ("Morb_Hpm", frml.Morb_Hpm, internal), ("DerOmega", frml.DerOmega, internal)]
    fd_jobs = []
    for n in (1, 2, 3):
        for j in rng.choice(len(formulas), size=2, replace=False):
            name, F, kf = formulas[int(j)]
            ka, kb = f"fd{n}_{name}_surf", f"fd{n}_{name}_sea"
            calcs[ka] = StaticCalculator(Formula=F, fder=n, Efermi=Ef, kwargs_formula=kf, **common)
            calcs[kb] = StaticCalculator(Formula=F, fder=0, Efermi=ext[n], kwargs_formula=kf, **common)
            fd_jobs.append((n, name, ka, kb, F, kf))
            if f"scale_{name}" not in calcs:  # natural scale of the formula: its sea values across the band range
                calcs[f"scale_{name}"] = StaticCalculator(Formula=F, fder=0, Efermi=np.linspace(lo - 0.05, hi + 0.05, 9), kwargs_formula=kf,
                                                          **common)
    calcs["dos"] = calc.static.DOS(Efermi=Ef, **common)
    calcs["cumdos_ext1"] = calc.static.CumDOS(Efermi=Ef1, **common)
    # ---- band selections: a sorted index array; the same set in another order; everything; nothing; the complement ----------------
    sel = np.sort(rng.choice(nw, size=int(rng.integers(1, nw + 1)), replace=False))
    comp = np.array([i for i in range(nw) if i not in set(sel.tolist())], dtype=int)
    sel_perm = sel[rng.permutation(len(sel))]
    calcs["dos_sel"] = calc.static.DOS(Efermi=Ef, select_bands=sel, **common)
    calcs["spin_sel"] = StaticCalculator(Formula=frml.Spin, fder=1, Efermi=Ef, select_bands=sel, **common)
    calcs["dos_sel_perm"] = calc.static.DOS(Efermi=Ef, select_bands=sel_perm, **common)
    calcs["dos_sel_all"] = calc.static.DOS(Efermi=Ef, select_bands=np.arange(nw), **common)
    calcs["dos_sel_none"] = calc.static.DOS(Efermi=Ef, select_bands=np.array([], dtype=int), **common)
    nsel = int(rng.integers(2, 4))       # a higher derivative of the selected-state count
    calcs["ident_sel"] = StaticCalculator(Formula=frml.Identity, fder=nsel, Efermi=Ef, select_bands=sel, **common)
    pn, pname, pka, pkb, pF, pkf = fd_jobs[int(rng.integers(len(fd_jobs)))]   # selection + complement == no selection, any formula
    calcs["part_sel"] = StaticCalculator(Formula=pF, fder=pn, Efermi=Ef, kwargs_formula=pkf, select_bands=sel_perm, **common)
    calcs["part_comp"] = StaticCalculator(Formula=pF, fder=pn, Efermi=Ef, kwargs_formula=pkf, select_bands=comp, **common)
    # ---- k-resolved: the named calculators, a selected DOS and one random (formula, fder) job -----------------------------------
    kn, kname, kka, kkb, kF, kkf = fd_jobs[int(rng.integers(len(fd_jobs)))]
    tabs = {
        "cumdos": calc.static.CumDOS(Efermi=Ef, k_resolved=True, **common),
        "ahc": calc.static.AHC(Efermi=Ef, kwargs_formula=internal, constant_factor=1.0, k_resolved=True, **common),
        "morb": calc.static.Morb(Efermi=Ef, kwargs_formula=internal, constant_factor=1.0, k_resolved=True, **common),
        "dos": calc.static.DOS(Efermi=Ef, k_resolved=True, **common),
        "dos_sel": calc.static.DOS(Efermi=Ef, k_resolved=True, select_bands=sel, **common),
        kka: StaticCalculator(Formula=kF, fder=kn, Efermi=Ef, kwargs_formula=kkf, k_resolved=True, **common),
    }
    # ---- tetra=True: only the relations of this property that do not depend on the tetrahedron weights (those are C14) ------------
    tetra = bool(rng.random() < 0.2)
    if tetra:
        for key, cls, kw in (("t_cumdos", calc.static.CumDOS, {}), ("t_dos", calc.static.DOS, {}),
                             ("t_ahc", calc.static.AHC, dict(kwargs_formula=internal, constant_factor=1.0))):
            calcs[key] = cls(Efermi=Ef, tetra=True, **kw, **common)
            tabs[key] = cls(Efermi=Ef, tetra=True, k_resolved=True, **kw, **common)
        calcs["t_dos_sel"] = calc.static.DOS(Efermi=Ef, tetra=True, select_bands=sel_perm, **common)
        calcs["t_dos_comp"] = calc.static.DOS(Efermi=Ef, tetra=True, select_bands=comp, **common)
    calcs["tab"] = calc.TabulatorAll(tabs, mode="grid", save_mode="")

    grid = Grid(system, NKdiv=NKdiv, NKFFT=NKFFT)
    result = runner.run(system, grid, calcs)
    R = {k: (v.data if hasattr(v, "data") else v) for k, v in result.results.items()}
    vol = abs(np.linalg.det(system.real_lattice))
    wit = dict(variant=variant, copies=info["m"], chain_shift=info["delta"], offset=offset, history=hist, warm_caches=warm, dim=dim, nw=nw,
               NK=NK, NKdiv=NKdiv, NKFFT=NKFFT, degen_thresh=thresh, degen_thresh_passed=tmode, degen_Kramers=kramers, efmode=efmode,
               E0=E0, dE=dE, nEf=nEf, band_range=(lo, hi))
    SC = {}   # natural scale of every judged key (used again by the re-use history below)

    # ---------------- (a) sea semantics against the harness sum ------------------------------------------
    cnt = orc.sea("count", Ef)[:, 0]
    ctx.close("CumDOS!=harness_sea_count", R["cumdos"], cnt, rtol=1e-10, scale=nw,
              what="CumDOS vs count of whole groups with mean energy <= EF", witness=dict(wit, got=R["cumdos"], exp=cnt))
    ctx.count("sea_cumdos")
    c = R["cumdos"]
    ctx.ev()
    if np.any(np.diff(c) < -1e-12):
        ctx.violation("CumDOS_decreasing", f"CumDOS decreases along the Fermi grid: {c}", wit)
    below, above = Ef < lo - TIE, Ef > hi + TIE
    if below.any():
        ctx.close("CumDOS!=0_below_all_bands", c[below], 0 * c[below], atol=1e-12, rtol=0, witness=wit)
        ctx.count("levels_below_all_bands", int(below.sum()))
    if above.any():
        ctx.close("CumDOS!=num_wann_above_all_bands", c[above], nw + 0 * c[above], atol=1e-10, rtol=0, witness=wit)
        ctx.count("levels_above_all_bands", int(above.sum()))
    ctx.close("Spin!=harness_sea_sum", R["spin"], orc.sea("spin", Ef), rtol=1e-8, scale=orc.scale["spin"],
              what="Spin vs sum over occupied groups of <n|S|n>", witness=wit)
    ctx.close("AHC_internal!=harness_sea_Kubo_sum", R["ahc"], orc.sea("omega", Ef) / vol, rtol=1e-8,
              scale=orc.scale["omega"] / vol, what="AHC(internal, constant_factor=1) vs Kubo sum over occupied groups",
              witness=wit)
    ctx.count("sea_spin_ahc")
    morb_exp = orc.sea("hplus", Ef) - 2 * Ef[:, None] * orc.sea("omega", Ef)
    morb_scale = orc.scale["hplus"] + 2 * np.abs(Ef).max() * orc.scale["omega"]
    ctx.close("Morb_internal!=harness_sea_Kubo_sum[non_additive]", R["morb"], morb_exp, rtol=1e-8, scale=morb_scale,
              what="Morb(internal, constant_factor=1) vs Kubo sum with the occupied manifold 0..N(k)", witness=wit)
    ctx.count("sea_morb_nonadditive")
    SC.update(cumdos=nw, spin=orc.scale["spin"], ahc=orc.scale["omega"] / vol, morb=morb_scale, dos=nw / dE, dos_sel=nw / dE)
    if kramers:
        ctx.count("cases_degen_Kramers")
    ctx.close("AHC[constant_factor=c]!=c*AHC[constant_factor=1]", R["ahc_cf"], cf * R["ahc"], rtol=1e-12,
              scale=abs(cf) * orc.scale["omega"] / vol, witness=dict(wit, constant_factor=cf))
    ctx.count("constant_factor")
    # informational only: hole_like is undocumented and NOT judged (outside the property)
    if np.abs(R["ahc"]).max() > 1e-6 * orc.scale["omega"] / vol:
        if np.allclose(R["ahc_hole"], -R["ahc"], rtol=1e-9, atol=1e-12 * orc.scale["omega"] / vol):
            ctx.count("not_judged:hole_like_nontetra_equals_minus_sea_observed")
        else:
            ctx.count("not_judged:hole_like_nontetra_other")

    # ---------------- (b) fder=n  ==  n-th central difference of the sea calculator -----------------------
    for n, name, ka, kb, F, kf in fd_jobs:
        B = R[kb]
        exp = central_diff(B, n, dE)
        SC[ka] = max(np.abs(B).max(), np.abs(R[f"scale_{name}"]).max()) / dE ** n
        ctx.close(f"fder{n}!=central_difference_of_sea", R[ka], exp, rtol=1e-9, scale=SC[ka],
                  what=f"StaticCalculator(Formula={name}, fder={n}) vs difference quotient of fder=0 on the extended grid",
                  witness=dict(wit, formula=name))
        ctx.count(f"fd_order{n}")
        if np.abs(exp).max() > 0:
            ctx.count("fd_nonzero")
    # A formula can vanish identically for a model (Berry curvature of one band or of decoupled copies): its values are rounding noise and so
    # is the scale above.  (b) is not affected (both sides are the same accumulations), but comparisons between DIFFERENT accumulations
    # (k-average, selection + complement, second run) take a floor from the inputs: lattice constant a0, spectral width W, the Kubo scales
    a0 = float(np.mean(np.linalg.norm(system.real_lattice, axis=1)))
    W = hi - lo + 0.1
    floors = dict(Identity=nw, Omega=orc.scale["omega"], Spin=orc.scale["spin"], VelVel=(a0 * W) ** 2, InvMass=a0 ** 2 * W,
                  VelOmega=a0 * W * orc.scale["omega"], Morb_Hpm=orc.scale["hplus"], DerOmega=a0 * orc.scale["omega"])
    for n, name, ka, kb, F, kf in fd_jobs:
        SC[ka] = max(SC[ka], floors[name] / vol / dE ** n)
    ctx.close("DOS!=central_difference_of_CumDOS", R["dos"], central_diff(R["cumdos_ext1"], 1, dE), rtol=1e-9,
              scale=nw / dE, what="DOS vs (CumDOS(E+dE)-CumDOS(E-dE))/2dE", witness=wit)
    dos_ref = central_diff(orc.sea("count", Ef1)[:, 0], 1, dE)
    ctx.close("DOS!=central_difference_of_harness_count", R["dos"], dos_ref, rtol=1e-9, scale=nw / dE, witness=wit)

    # ---------------- (d) select_bands on surface calculators ---------------------------------------------
    wsel = dict(wit, select_bands=sel)
    acc, sc = orc.selected_acc("count", Ef1, sel)
    dos_sel_ref = central_diff(acc[:, 0], 1, dE)
    ctx.close("DOS[select_bands]!=harness", R["dos_sel"], dos_sel_ref, rtol=1e-9, scale=nw / dE,
              what=f"DOS with select_bands={sel.tolist()} vs difference quotient of the selected-state count", witness=wsel)
    acc, sc = orc.selected_acc("spin", Ef1, sel)
    ctx.close("fder1_Spin[select_bands]!=harness", R["spin_sel"], central_diff(acc, 1, dE) / vol, rtol=1e-8,
              scale=max(sc, orc.scale["spin"]) / dE / vol, witness=wsel)
    ctx.count("select_bands")
    ctx.close("DOS[select_bands in another order]!=harness", R["dos_sel_perm"], dos_sel_ref, rtol=1e-9, scale=nw / dE,
              what=f"DOS with select_bands={sel_perm.tolist()}", witness=dict(wit, select_bands=sel_perm))
    if len(sel) > 1 and not np.array_equal(sel, sel_perm):
        ctx.count("select_bands_unsorted")
    ctx.close("DOS[select_bands=all]!=DOS", R["dos_sel_all"], R["dos"], rtol=1e-12, scale=nw / dE, witness=wit)
    ctx.close("DOS[select_bands=empty]!=0", R["dos_sel_none"], 0 * R["dos"], rtol=0, atol=0, witness=wit)
    ctx.count("select_bands_all_and_none")
    acc, sc = orc.selected_acc("count", ext[nsel], sel)
    ctx.close(f"fder{nsel}_Identity[select_bands]!=harness", R["ident_sel"], central_diff(acc[:, 0], nsel, dE) / vol, rtol=1e-9,
              scale=nw / dE ** nsel / vol, what=f"StaticCalculator(Identity, fder={nsel}, select_bands={sel.tolist()}) vs difference "
              "quotient of the selected-state count", witness=wsel)
    ctx.count("select_bands_higher_fder")
    ctx.close("select_bands+complement!=no_selection", R["part_sel"] + R["part_comp"], R[pka], rtol=1e-9, scale=SC[pka],
              what=f"StaticCalculator({pname}, fder={pn}) with select_bands={sel_perm.tolist()} plus the same with the complement "
              f"{comp.tolist()} vs the calculator without selection", witness=dict(wsel, formula=pname, fder=pn))
    ctx.count("select_bands_partition")

    # ---------------- (c) k-resolved inside TabulatorAll ---------------------------------------------------
    tab = result.results["tab"]
    klist = [("cumdos", "cumdos", nw), ("ahc", "ahc", orc.scale["omega"] / vol), ("morb", "morb", morb_scale), ("dos", "dos", nw / dE),
             ("dos_sel", "dos_sel", nw / dE), (kka, kka, SC[kka])]
    if tetra:
        # natural scales: a count; a count per energy (tetrahedron DOS is bounded by num_wann / spread of the corner energies, the Fermi
        # spacing is the finer of the two scales here); the Kubo sum
        klist += [("t_cumdos", "t_cumdos", nw), ("t_dos", "t_dos", nw / min(dE, max(width, 1e-3))), ("t_ahc", "t_ahc", orc.scale["omega"] / vol)]
    for key, ukey, sc in klist:
        dk = tab.results[key].data
        ctx.close(f"k_resolved_mean!=unresolved[{key if not key.startswith('fd') else 'fder%d' % kn}]", dk.mean(axis=0), R[ukey], rtol=1e-9,
                  scale=sc, what=f"k-average of the k_resolved {key} vs the unresolved calculator", witness=wit)
    ctx.count(f"k_resolved_fder{kn}")
    kk = np.asarray(tab.kpoints)
    ii = np.rint(kk * np.array(NK)[None, :]).astype(int) % np.array(NK)[None, :]
    lin = (ii[:, 0] * NK[1] + ii[:, 1]) * NK[2] + ii[:, 2]
    ctx.ev()
    if len(set(lin.tolist())) != len(ks) or np.abs(kk * np.array(NK) - np.rint(kk * np.array(NK))).max() > 1e-9:
        ctx.violation("TabulatorAll_kpoints!=grid", "k-points of the tabulated result are not the NK grid", wit)
    else:
        exp_k = orc.sea_k("count", Ef)[lin, :, 0]
        ctx.close("k_resolved_CumDOS!=harness_count_per_k", tab.results["cumdos"].data, exp_k, rtol=1e-10, scale=nw,
                  what="k-resolved CumDOS vs harness count at each k-point", witness=wit)
        exp_k = orc.sea_k("omega", Ef)[lin] / vol
        ctx.close("k_resolved_AHC!=harness_Kubo_per_k", tab.results["ahc"].data, exp_k, rtol=1e-8,
                  scale=float(np.abs(exp_k).max()) + orc.scale["omega"] / vol, witness=wit)
    ctx.count("k_resolved")
    if tetra:
        ctx.close("tetra:select_bands+complement!=no_selection", R["t_dos_sel"] + R["t_dos_comp"], R["t_dos"], rtol=1e-9,
                  scale=nw / min(dE, max(width, 1e-3)), what="DOS(tetra=True) with a selection plus with its complement vs without selection",
                  witness=wsel)
        ctx.count("tetra_differential")

    # ---------------- history: the SAME calculator objects asked again, on another grid object with the same k set ---------------
    if rng.random() < 0.2:
        before = {k: np.array(v.data, copy=True) for k, v in result.results.items() if hasattr(v, "data")}
        before_tab = {k: np.array(v.data, copy=True) for k, v in tab.results.items()}
        NKdiv2, NKFFT2 = split_grid(rng, NK)
        result2 = runner.run(system, Grid(system, NKdiv=NKdiv2, NKFFT=NKFFT2), calcs)
        w2 = dict(wit, NKdiv_second=NKdiv2, NKFFT_second=NKFFT2)
        for k, sc in SC.items():
            if k in before:
                # rtol 1e-8 as for the sea oracles: H(k) of the second split differs in the last bits, so do near-degenerate eigenvectors
                ctx.close("same_calculator_object_second_run!=first_run", result2.results[k].data, before[k], rtol=1e-8, scale=sc,
                          what=f"calculator '{k}' re-used on another NKdiv x NKFFT split of the same mesh", witness=dict(w2, key=k))
        ctx.ev()
        changed = [k for k, v in before.items() if not np.array_equal(v, result.results[k].data)]
        changed += ["tab." + k for k, v in before_tab.items() if not np.array_equal(v, tab.results[k].data)]
        if changed:
            ctx.violation("earlier_result_changed_by_second_run", f"results returned by the first run() changed during the second: {changed}", w2)
        ctx.count("calculator_objects_reused")

    if rng.random() < 0.25:
        pending_forms(ctx, system, grid, Ef, sel, common, R["dos_sel"], nw / dE, wit)

    # ---------------- exact ties the property talks about --------------------------------------------------
    if idx % 4 == 0:
        flat_band_case(ctx, rng)
    if idx % 4 == 1:
        direct_ranges_case(ctx, rng)

    # non-trivial: bands disperse and the scanned window really cuts the spectrum
    allm = np.concatenate(orc.means)
    inside = int(((allm > Ef2[0]) & (allm < Ef2[-1])).sum())
    if width > 0.2 and inside > 0:
        ctx.nontrivial((variant, info["m"], dim, nw, NK, thresh, tmode, kramers, efmode, nEf, offset, hist, warm))
        ctx.count("window_cuts_bands")
        sizes = [b2 - b1 for g in orc.groups for b1, b2 in g]
        if max(sizes) > 1:
            ctx.count("cases_with_degenerate_groups")
        if max(sizes) > 2:
            ctx.count("cases_with_multiplets_above_2")
        if variant == "chain" and info["m"] >= 3 and 0.5 * abs(thresh) < info["delta"] < abs(thresh):
            ctx.count("cases_with_chain_multiplets")
        if nEf >= 100:
            ctx.count("cases_with_100+_Fermi_levels")
        if offset != 0:
            ctx.count("cases_with_energy_offset")
    if efmode == "outside":
        ctx.count("window_outside_all_bands")
    ctx.sample(dict(wit, groups_k0=orc.groups[0], select_bands=sel))


if __name__ == "__main__":
    harness.main(
        PROP, "exploration", case, setup_fn=setup,
        tiers=dict(quick=dict(cases=800, shards=8, time=900), thorough=dict(cases=8000, shards=16, time=3000)),
        rule="random Hermitian models with generic SS (2-5 bands; 1-3 bands in 2-4 identical copies: exact 2-/3-/4-fold multiplets; copies "
             "shifted by 0.45/0.8/1.6/4 degen_thresh: chain multiplets), on-site offset 0/-7.5/+30 eV, 2D and 3D, systems as built or after "
             "rvec.copy / do_ws_dist / npz round trip / with warm caches, grids up to 5^3 (one direction 1 or 7-8) / 9^2 split at random "
             "into NKdiv x NKFFT, degen_thresh default / {1e-4,1e-3,.03,.3,.8} / {0,-1}, degen_Kramers, uniform Fermi grids (1-22 or "
             "100/128/257 points, spacing 2e-3..1, covering the bands / inside them / single point / outside all bands), select_bands "
             "sorted / permuted / all / none / complement, fder 0-3, k_resolved, tetra (differential only), calculators re-used on a "
             "second split of the mesh; non-trivial = band width > 0.2 eV and at least one group energy inside the scanned window; "
             "distinct by (variant, copies, dim, num_wann, NK, thresh, thresh mode, Kramers, grid mode, count, offset, history, warm)",
        assumptions=["oracle = explicit Fourier sums + numpy eigh + Kubo sums in vlib/kspace.py (no wannierberri code)",
                     "tie guard: band gaps >= 1e-7 away from degen_thresh, group energies >= 1e-7 away from all Fermi-bin edges "
                     "(else Skip); exact ties only in the flat-band sub-case with exactly representable numbers",
                     "hole_like, use_factor, Emin/Emax are undocumented and not judged; tetra=True is judged only through relations "
                     "that do not involve the tetrahedron weights (k-average of k_resolved, selection + complement); C14 owns the weights",
                     "select_bands / Efermi as tuple or list raise on the unchanged tree (report of the C13 review): generated only with "
                     "VERIF_C13_PENDING=1"],
        required_counters=("sea_cumdos", "sea_spin_ahc", "sea_morb_nonadditive", "fd_order1", "fd_order2", "fd_order3",
                           "fd_nonzero", "k_resolved", "select_bands", "cases_degen_Kramers", "exact_tie_grids",
                           "window_cuts_bands", "cases_with_degenerate_groups",
                           "cases_with_multiplets_above_2", "cases_with_chain_multiplets", "cases_with_energy_offset",
                           "cases_with_100+_Fermi_levels", "window_outside_all_bands", "degen_thresh:default", "degen_thresh:nonpositive",
                           "constant_factor", "select_bands_unsorted", "select_bands_all_and_none", "select_bands_higher_fder",
                           "select_bands_partition", "k_resolved_fder2", "k_resolved_fder3", "tetra_differential",
                           "calculator_objects_reused", "history:rvec_copy", "history:ws_dist", "history:npz_roundtrip",
                           "history:warm_caches", "exact_tie_group_mean_on_grid", "exact_tie_integer_dtype_grid", "direct_band_ranges",
                           "direct_band_ranges_with_spans")
        + ("pending_argument_forms",),
    )
