"""C05 - results are invariant under relabelling or rotating the Wannier basis (META).

(1) System_R.reorder(perm): every calculator's integrated output, the band-resolved grid tabulation and evaluate_k must not change.
(2) one k-independent unitary rotation among Wannier functions that share a centre, applied by the harness to *all* real-space
    matrices (X(R) -> U^dagger X(R) U, any cartesian rank): same invariance.
(3) spin_block2interlace is a relabelling too, and block2interlace followed by interlace2block restores the system.
"""
import copy
import os
import shutil
import sys

sys.path.insert(0, os.path.dirname(os.path.dirname(os.path.abspath(__file__))))
from vlib import env, harness, gen_systems, monitors, runkit  # noqa: E402
import numpy as np  # noqa: E402
from scipy.stats import unitary_group  # noqa: E402

PROP = "C05"


def setup(ctx):
    env.import_wb()
    return {}


def tie_guard(E, Ef):
    dE = Ef[1] - Ef[0]
    pos = (E.reshape(-1)[:, None] - (Ef[0] - 3 * dE)) / dE
    if np.abs(pos - np.round(pos)).min() * dE < 1e-7:
        raise harness.Skip("tie: band energy on a Fermi-bin edge")
    d = np.diff(E, axis=1)
    if d.size and d.min() < 2e-3:
        raise harness.Skip("tie: nearly degenerate bands (band-resolved values are gauge dependent there)")


def case(ctx, rng, idx, state):
    import wannierberri as wb
    from wannierberri.grid import Grid

    nw = int(rng.integers(2, 7 if ctx.thorough else 6))
    keysets = [("Ham",), ("Ham", "AA"), ("Ham", "AA", "SS"), ("Ham", "AA", "BB", "CC"), ("Ham", "AA", "SS", "BB", "CC")]
    keys = keysets[int(rng.integers(len(keysets)))]
    # centres coinciding in groups
    ng = int(rng.integers(1, min(3, nw) + 1))
    labels = np.sort(np.concatenate([np.arange(ng), rng.integers(ng, size=nw - ng)]))
    pos = rng.uniform(-0.5, 1.5, (ng, 3))
    cred = pos[labels]
    system = gen_systems.herm_system(rng, num_wann=nw, radius=rng.uniform(1.0, 2.0), keys=keys, centers=cred)
    # the state of the system before the relabelling depends on how the user got there (copy, do_ws_dist, reload from disk, ...)
    os.makedirs(env.WORK, exist_ok=True)
    system, hist = gen_systems.history_variant(rng, system, which=gen_systems.HISTORIES[idx % len(gen_systems.HISTORIES)], workdir=env.WORK)
    ctx.count(f"history_{hist}")
    ctx.count("explicit_right_shifts_cases", int(bool(system.rvec.has_shifts_right)))
    N = [int(x) for x in rng.integers(2, 4, size=3)]
    div = [int(rng.choice([d for d in range(1, n + 1) if n % d == 0])) for n in N]
    fft = [n // d for n, d in zip(N, div)]
    emin, emax, _ = gen_systems.bandwidth(system, nk=3)
    Ef = np.linspace(emin + 0.15 * (emax - emin), emax - 0.15 * (emax - emin), int(rng.integers(4, 8))) + rng.uniform(0, 1e-2)
    omega = np.linspace(0.1, 0.8 * (emax - emin), 3)
    calcs = runkit.big_basket(rng, wb, system, Ef, omega, kmin=2, kmax=4)
    if "CC" in keys:
        calcs["Morb"] = wb.calculators.static.Morb(Efermi=Ef)
        calcs["tab"].tabulators["morb"] = wb.calculators.tabulate.OrbitalMoment()
    ctx.count('calculator_options_' + ('+'.join(sorted(runkit.big_basket.last_options)) or 'default'))
    twins = runkit.raw_twins(calcs)
    calcs_run = dict(calcs, **twins)
    ks = np.array([(i / N[0], j / N[1], k / N[2]) for i in range(N[0]) for j in range(N[1]) for k in range(N[2])])
    tie_guard(gen_systems.bands(system, ks), Ef)
    kprobe = rng.uniform(0, 1, (2, 3))
    quantities = ["energy", "band_gradients", "berry_curvature_internal_terms"] + (["berry_curvature"] if "AA" in keys else []) + (["spin"] if "SS" in keys else [])
    if np.diff(gen_systems.bands(system, kprobe), axis=1).min() < 2e-3:
        raise harness.Skip("tie: nearly degenerate bands at the probe point")

    tmp = os.path.join(env.WORK, f"c05-{os.getpid()}-{idx}")
    os.makedirs(tmp, exist_ok=True)

    def observe(s):
        grid = Grid(s, NKdiv=div, NKFFT=fft)
        with monitors.chdir(tmp):
            r = wb.run(s, grid, calcs_run, parallel=False, use_irred_kpt=False, symmetrize=False, adpt_num_iter=0, fout_name="c05",
                       print_progress_step_time=1e9)
        ek = [wb.evaluate_k(s, k=tuple(k), quantities=quantities, return_single_as_dict=True) for k in kprobe]
        return r, ek

    def compare(tag, r0, e0, r1, e1, wit):
        for key in calcs:
            if key == "tab":
                for q in r0.results[key].results:
                    a = r0.results[key].results[q].data
                    ctx.close(f"{tag}:band_resolved_tabulation_changed", r1.results[key].results[q].data, a, rtol=1e-7, scale=np.abs(a).max(),
                              what=f"tab {q}", witness=wit)
            else:
                sc = runkit.natural_scale([r0, r1], key)
                ctx.close(f"{tag}:integrated_result_changed", r1.results[key].data, r0.results[key].data, rtol=1e-8, scale=sc, what=f"key {key}", witness=wit)
        for a, b in zip(e0, e1):
            for q in quantities:
                ctx.close(f"{tag}:evaluate_k_changed", b[q], a[q], rtol=1e-7, scale=max(np.abs(a[q]).max(), 1e-300), what=f"evaluate_k {q}", witness=wit)

    try:
        r0, e0 = observe(system)
        base = dict(history=hist, num_wann=nw, keys=keys, centre_groups=labels, N=N, NKdiv=div, NKFFT=fft, calculators=sorted(calcs))
        # (1) permutation (incl. ones that separate the co-centred groups)
        perm = rng.permutation(nw)
        s1 = copy.deepcopy(system)   # keeps the history-dependent internal state (a rebuilt system would not)
        monitors.warm_caches(s1)
        s1.reorder(perm)
        monitors.assert_no_stale_caches(ctx, s1, "reorder", dict(base, perm=perm))
        r1, e1 = observe(s1)
        compare("reorder", r0, e0, r1, e1, dict(base, perm=perm))
        ctx.count("reorder_cases")
        # the reordered system must be the permuted one (independent check of the bookkeeping)
        for k in keys:
            X = system.get_R_mat(k)
            ctx.close("reorder:matrices_not_permuted", s1.get_R_mat(k), X[:, perm][:, :, perm], rtol=1e-14, scale=np.abs(X).max(), what=k, witness=dict(base, perm=perm))
        ctx.close("reorder:centres_not_permuted", s1.wannier_centers_cart, system.wannier_centers_cart[perm], rtol=1e-14, scale=1.0, what="centres",
                  witness=dict(base, perm=perm))
        ctx.close("reorder:rvec_shifts_not_permuted", s1.rvec.shifts_left_red, system.wannier_centers_red[perm], rtol=1e-12, scale=1.0, what="shifts",
                  witness=dict(base, perm=perm))
        ctx.close("reorder:rvec_right_shifts_not_permuted", s1.rvec.shifts_right_red, system.wannier_centers_red[perm], rtol=1e-12, scale=1.0, what="right shifts",
                  witness=dict(base, perm=perm))
        # (2) unitary rotation inside the groups of coinciding centres
        U = np.zeros((nw, nw), dtype=complex)
        rotated = 0
        for g in range(ng):
            ii = np.where(labels == g)[0]
            if len(ii) > 1:
                U[np.ix_(ii, ii)] = unitary_group.rvs(len(ii), random_state=int(rng.integers(1 << 31)))
                rotated += 1
            else:
                U[ii[0], ii[0]] = np.exp(2j * np.pi * rng.random())
        mats = {k: np.einsum("ia,riJ...,Jb->rab...", U.conj(), X, U) for k, X in system._XX_R.items()}
        s2 = gen_systems.make_system(system.real_lattice, system.rvec.iRvec, mats, system.wannier_centers_red)
        r2, e2 = observe(s2)
        compare("rotation", r0, e0, r2, e2, dict(base, rotated_groups=rotated))
        ctx.count("rotation_cases")
        ctx.count("groups_really_rotated", rotated)
        # (3) spin_block2interlace: a relabelling; and its inverse restores the system
        if nw % 2 == 0:
            s3 = copy.deepcopy(system)
            monitors.warm_caches(s3)
            s3.spin_block2interlace()
            monitors.assert_no_stale_caches(ctx, s3, "spin_block2interlace", base)
            r3, e3 = observe(s3)
            compare("spin_block2interlace", r0, e0, r3, e3, base)
            s3.spin_interlace2block()
            for k in keys:
                X = system.get_R_mat(k)
                ctx.close("block2interlace_then_interlace2block!=identity", s3.get_R_mat(k), X, rtol=1e-14, scale=np.abs(X).max(), what=k, witness=base)
            ctx.close("block2interlace_then_interlace2block!=identity", s3.wannier_centers_cart, system.wannier_centers_cart, rtol=1e-14, scale=1.0,
                      what="centres", witness=base)
            ctx.count("block2interlace_cases")
    finally:
        shutil.rmtree(tmp, ignore_errors=True)
    ctx.nontrivial((hist, nw, keys, tuple(labels.tolist()), tuple(N), tuple(sorted(calcs)), tuple(perm.tolist())))
    ctx.sample(dict(base, perm=perm, rotated_groups=rotated))


if __name__ == "__main__":
    harness.main(
        PROP, "exploration", case, setup_fn=setup,
        tiers=dict(quick=dict(cases=24, shards=8, time=900), thorough=dict(cases=500, shards=16, time=3000)),
        rule="system brought into one of 5 API histories first (as built / rvec.copy() / do_ws_dist on a random mesh / npz round trip / both); random Hermitian models with 2-6 WFs in 1-3 co-centred groups and any subset of Ham/AA/SS/BB/CC; random permutations (incl. group-"
             "separating ones), Haar-random unitaries inside each co-centred group (random phases on singletons), spin block<->interlace; 2-4 integrating "
             "calculators from a pool of 14 + Morb, a grid tabulator (energy, Berry curvature, velocity, orbital moment) and evaluate_k at 2 random k; "
             "distinct by (model, grouping, permutation, calculators)",
        assumptions=["rotation applied by the harness to every real-space matrix with einsum", "tie guards: bands >= 2e-3 apart on the grid and at the probe "
                     "points (band-resolved quantities), energies 1e-7 away from Fermi-bin edges"],
        required_counters=("history_ws_dist", "history_rvec_copy", "history_npz_roundtrip", "explicit_right_shifts_cases", "reorder_cases", "rotation_cases", "groups_really_rotated", "block2interlace_cases"),
    )
