"""Helper of C12 (thorough tier): confirm on the *real* ray that run(parallel=True) equals the serial run and that every K-point
result is collected exactly once, for completion orders forced by per-K-point delays injected through the documented
`data_k_class` parameter of run().  Prints one JSON line.  Run in its own process (the stand-in must not be installed)."""
import json
import os
import sys
import tempfile
import time

sys.path.insert(0, os.path.dirname(os.path.dirname(os.path.abspath(__file__))))
from vlib import env  # noqa: E402

env.setup_path()
import numpy as np  # noqa: E402


def main():
    seed = int(sys.argv[1]) if len(sys.argv) > 1 else 0
    out = dict(ok=False, schedules=[], error=None)
    try:
        import ray
        wb = env.import_wb(fake_ray=False)
        assert not getattr(ray, "__version__", "").endswith("standin")
        from vlib import gen_systems, monitors, runkit
        from wannierberri.grid import Grid
        from wannierberri.data_K import get_data_k_class_from_system
        rng = np.random.default_rng([seed, 12, 99])
        with env.quiet():
            system, info = runkit.make_run_system(rng, with_group=False, num_wann=2, keys=("Ham",))
            grid = Grid(system, NKdiv=(2, 2, 2), NKFFT=(1, 1, 1))
        Ef = runkit.fermi_grid(rng, system, n=4)
        calcs = {"CumDOS": wb.calculators.static.CumDOS(Efermi=Ef), "AHC": wb.calculators.static.AHC(Efermi=Ef, kwargs_formula={"external_terms": False})}
        base = get_data_k_class_from_system(system)
        tmp = tempfile.mkdtemp(prefix="c12ray")
        os.chdir(tmp)
        kw = dict(use_irred_kpt=False, symmetrize=False, adpt_num_iter=0, fout_name="r", print_progress_step_time=1e9, print_progress_step_percent=1)
        with env.quiet():
            serial = wb.run(system, grid, calcs, parallel=False, **kw)
        ncpu = 2
        ray.init(num_cpus=ncpu, include_dashboard=False, log_to_driver=False)
        out["ray_version"] = ray.__version__
        orders = [(1, 6, 5, 4, 7, 0, 2, 3), tuple(int(x) for x in rng.permutation(8)), (7, 6, 5, 4, 3, 2, 1, 0)]
        for order in orders:
            rank = {k: i for i, k in enumerate(order)}

            class Delayed(base):
                def __init__(self, system, **kwargs):
                    K = kwargs.get("Kpoint")
                    idx = int(round(K.K[0] * 2)) * 4 + int(round(K.K[1] * 2)) * 2 + int(round(K.K[2] * 2))
                    time.sleep(0.25 * rank[idx])
                    super().__init__(system, **kwargs)
            mon = monitors.RunMonitor()
            with env.quiet(), mon:
                par = wb.run(system, grid, calcs, parallel=True, data_k_class=Delayed, **kw)
            rec = dict(order=order, set_result_calls=mon.counters.get("set_result_calls", 0), monitor_violations=[(m, msg) for m, msg, _ in mon.violations])
            for key in calcs:
                a, b = par.results[key].data, serial.results[key].data
                rec[key] = float(np.abs(a - b).max() / max(np.abs(b).max(), 1e-300))
            out["schedules"].append(rec)
        ray.shutdown()
        out["ok"] = True
    except Exception as e:  # noqa
        import traceback
        out["error"] = f"{type(e).__name__}: {e}"
        out["traceback"] = traceback.format_exc()[-1500:]
    print("C12REALRAY " + json.dumps(out))


if __name__ == "__main__":
    main()
