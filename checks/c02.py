"""C02 - all Fourier-transform back ends give the same k-space matrices (REF + DIFF).

Oracle: explicit sum over R written in the harness (vlib.oracles.ft_explicit), compared with
Rvectors.R_to_k for fftlib in {fftw, numpy, slow} and for explicit k-lists, derivative orders
0-3, on the *un-forced* output (hermitian=False), plus Data_K_R.HH_K and Xbar('Ham', der)
rotated back to the Wannier gauge.  Hermiticity is asserted on the un-forced output.
"""
import os
import sys

sys.path.insert(0, os.path.dirname(os.path.dirname(os.path.abspath(__file__))))
from vlib import env, harness, gen_systems, oracles  # noqa: E402
import numpy as np  # noqa: E402

PROP = "C02"


def setup(ctx):
    env.import_wb()
    return {}


def case(ctx, rng, idx, state):
    from wannierberri.grid import Grid
    from wannierberri.grid.Kpoint import KpointBZparallel
    from wannierberri.data_K.data_K_R import Data_K_R

    nw = int(rng.integers(1, 6 if ctx.thorough else 5))
    cmode = ["random", "outside", "groups", "highsym", "zero"][int(rng.integers(5))]
    keys = ("Ham", "AA") if rng.random() < 0.4 else ("Ham",)
    system = gen_systems.herm_system(rng, num_wann=nw, radius=rng.uniform(1.0, 2.6), keys=keys, centers=cmode,
                                     thin=rng.choice([0.0, 0.3]))
    system, hist = gen_systems.history_variant(rng, system, which=gen_systems.HISTORIES_NO_DISK[idx % 4])   # state reached through the API first
    ctx.count(f"history_{hist}")
    iR = system.rvec.iRvec
    lattice = system.real_lattice
    tl = system.wannier_centers_red
    NK = tuple(int(x) for x in rng.integers(1, 6 if not ctx.thorough else 8, size=3))
    if rng.random() < 0.25:
        NK = (NK[0],) * 3
    dK = rng.uniform(-0.5, 1.5, 3) if rng.random() < 0.3 else rng.uniform(0, 1, 3) / np.array(NK)
    if rng.random() < 0.15:
        dK = np.zeros(3)
    dkclass = "generic" if np.any(dK) else "zero"
    if rng.random() < 0.3:
        # shifts that are tiny but not zero (1e-9 .. 1e-3 of the reciprocal cell, some components exactly 0 or next to a grid
        # step / a whole reciprocal vector): a shortcut "the grid is unshifted" taken on a tolerance shows up here (seed C02_b)
        mag = 10.0 ** rng.uniform(-9, -3, 3) * rng.choice([-1, 1], 3)
        base = [np.zeros(3), np.ones(3) / np.array(NK), np.ones(3), np.zeros(3)][int(rng.integers(4))]
        dK = base + mag * (rng.random(3) < 0.7)
        dkclass = "tiny" if np.any(dK) else "zero"
    ctx.count(f"dK_{dkclass}")
    aliasing = bool(np.any(np.abs(iR).max(axis=0) * 2 + 1 > np.array(NK)))
    kgrid = np.array([(i / NK[0], j / NK[1], k / NK[2]) for i in range(NK[0]) for j in range(NK[1]) for k in range(NK[2])])
    kall = kgrid + dK[None, :]
    nk = len(kall)
    ksel = np.arange(nk) if nk <= 24 else np.sort(rng.choice(nk, 24, replace=False))
    libs = ["fftw", "numpy"] + (["slow"] if nk <= 48 else [])
    ders = [0, 1, 2, 3] if nk * nw * nw * len(iR) < 60000 else [0, 1, 2]
    wit = dict(history=hist, nw=nw, NK=NK, dK=dK, dK_class=dkclass, nR=len(iR), centers=cmode, keys=keys, aliasing=aliasing)

    # a second grid shift for the same grid: one Rvectors object is re-used for every library and both shifts (a history of
    # set_fft_R_to_k calls on one object), and fresh copies are used as well
    dK2 = rng.uniform(0, 1, 3) / np.array(NK)
    if rng.random() < 0.3:
        dK2 = 10.0 ** rng.uniform(-9, -3, 3) * rng.choice([-1, 1], 3) * (rng.random(3) < 0.7)
        ctx.count("dK_second_shift_tiny")
    kall2 = kgrid + dK2[None, :]
    ref, ref2 = {}, {}
    for key in keys:
        X = system.get_R_mat(key)
        for der in ders:
            ref[key, der] = np.array([oracles.ft_explicit(X, iR, lattice, kall[i], der=der, shifts_left_red=tl)
                                      for i in ksel])
            ref2[key, der] = np.array([oracles.ft_explicit(X, iR, lattice, kall2[i], der=der, shifts_left_red=tl)
                                       for i in ksel])
    shared = system.rvec.copy()
    settings = [(lib, shift, obj) for lib in libs for shift in (0, 1) for obj in ("shared", "fresh")]
    settings = [settings[i] for i in rng.permutation(len(settings))]
    kept = []    # (returned array, copy at return time, label): values handed out must not change through later calls
    for lib, shift, obj in settings:
        rvec = shared if obj == "shared" else system.rvec.copy()
        rvec.set_fft_R_to_k(NK=NK, num_wann=nw, fftlib=lib, dK=dK2 if shift else dK)
        rr = ref2 if shift else ref
        for key in keys:
            for der in (ders if rng.random() < 0.5 else ders[::-1]):
                XR = rvec.apply_expdK(system.get_R_mat(key).copy())
                out = rvec.R_to_k(XR, der=der, hermitian=False)
                r = rr[key, der]
                ctx.close(f"R_to_k[{lib}]!=explicit_sum" + ("[object_re-used_with_another_shift_or_library]" if obj == "shared" else ""), out[ksel], r,
                          rtol=1e-10, scale=np.abs(r).max(), what=f"R_to_k lib={lib} key={key} der={der} shift#{shift} object={obj}", witness=wit)
                ctx.count(f"lib_{lib}")
                kept.append((out, out.copy(), f"lib={lib} key={key} der={der} shift#{shift} object={obj}", np.abs(r).max()))
                if key == "Ham":
                    ctx.close("unforced_output_not_hermitian", out, np.conj(np.swapaxes(out, 1, 2)), rtol=1e-10,
                              scale=np.abs(r).max(), what=f"Hermiticity lib={lib} der={der}", witness=wit)
    for out, snap, label, sc in kept:
        ctx.close("array_returned_by_R_to_k_changed_through_a_later_call", out, snap, rtol=1e-14, scale=sc, what=label, witness=wit)
    ctx.count("returned_arrays_rechecked", len(kept))
    # explicit list of k-points (incl. points outside [0,1))
    klist = np.vstack([kall[ksel], rng.uniform(-2, 3, (3, 3))])
    rvec = system.rvec.copy()
    rvec.set_fft_R_to_k(NK=None, num_wann=nw, k_list=klist)
    for key in keys:
        X = system.get_R_mat(key)
        for der in ders:
            out = rvec.R_to_k(rvec.apply_expdK(X.copy()), der=der, hermitian=False)
            extra = np.array([oracles.ft_explicit(X, iR, lattice, k, der=der, shifts_left_red=tl) for k in klist[-3:]])
            r = np.concatenate([ref[key, der], extra], axis=0)
            ctx.close("R_to_k[k_list]!=explicit_sum", out, r, rtol=1e-10, scale=np.abs(r).max(),
                      what=f"R_to_k k_list key={key} der={der}", witness=wit)
            ctx.count("lib_klist")

    # Data_K_R: HH_K and Xbar('Ham', der) rotated back to the Wannier gauge
    for lib in ("fftw", "numpy"):
        grid = Grid(system, NKdiv=1, NKFFT=NK, use_symmetry=False)
        Kp = KpointBZparallel(K=dK * np.array(NK), dK=np.ones(3), NKFFT=np.array(NK), factor=1.0,
                              pointgroup=grid.pointgroup, refinement_level=0)
        data = Data_K_R(system, dK=Kp.Kp_fullBZ, grid=grid, Kpoint=Kp, fftlib=lib)
        HH = data.HH_K
        r0 = ref["Ham", 0]
        r0h = 0.5 * (r0 + np.conj(np.swapaxes(r0, 1, 2)))
        ctx.close("Data_K_R.HH_K!=explicit_sum", HH[ksel], r0h, rtol=1e-10, scale=np.abs(r0).max(),
                  what=f"HH_K lib={lib}", witness=wit)
        U = data.UU_K
        for der in ders[1:]:
            Xb = data.Xbar("Ham", der)
            back = np.einsum("kab,kbc...,kdc->kad...", U, Xb, U.conj())
            r = ref["Ham", der]
            ctx.close("Data_K_R.Xbar(Ham,der)!=explicit_sum", back[ksel], r, rtol=1e-9, scale=np.abs(r).max(),
                      what=f"Xbar Ham der={der} lib={lib}", witness=wit)
        ctx.count("data_K_R")
    ctx.nontrivial((nw, NK, len(iR), cmode, aliasing))
    if aliasing:
        ctx.count("cases_with_aliasing_box")
    ctx.sample(wit)


if __name__ == "__main__":
    harness.main(
        PROP, "exploration", case, setup_fn=setup,
        tiers=dict(quick=dict(cases=80, shards=8, time=900), thorough=dict(cases=2400, shards=16, time=3000)),
        rule="random Hermitian real-space models (1-7 WFs, R ball radius<=2.6, centres random/outside/co-centred/"
             "high-symmetry), FFT boxes 1..7 per direction incl. boxes smaller than the R range, random dK, "
             "explicit k-lists with points outside [0,1); a case is distinct by (num_wann, FFT box, nR, centre mode, aliasing)",
        assumptions=["oracle = explicit sum over R in plain numpy (vlib/oracles.py:ft_explicit)",
                     "numpy LAPACK for nothing here; comparison tolerance 1e-10 of the max element"],
        required_counters=("lib_fftw", "lib_numpy", "lib_slow", "lib_klist", "data_K_R"),
    )
