"""C06 - K-point weights partition the Brillouin zone for every grid and history (INV + REF).

(A) Grid.get_K_list for the catalogue of (magnetic) point groups x lattices x (NKdiv, NKFFT) incl.
    anisotropic splits: weights >= 0, sum = 1, and - brute force, group acting on full-BZ k - the symmetry
    images of the retained points cover every grid point exactly once, weight = orbit size / N.
(B) refinement histories: the real run() is driven with a stub calculator whose result is a pseudo-random
    function of the K-point (the adversary decides which cells are refined); after every iteration the live
    K list must have density 1 everywhere:  rho(x) = sum_K factor_K/vol_K * #{g : g x in cell_K}/|G| = 1 at
    random generic points x (exact for images of cells under any symmetry, merged points included), and the
    in-situ monitors of vlib/monitors.py (divide, absorb, exclude_equiv_points, weights) must stay silent.
    The density oracle is applied only when every operation maps cells onto cells (signed permutations in
    reduced coordinates, equal sizes on the mixed axes): for hexagonal/oblique operations the image of a cell
    is a sheared parallelepiped and the property only speaks about points and weights - there every merge is
    checked by an independent point-equivalence oracle instead.
(C) tetrahedral grids: the starting tetrahedra tile the reciprocal cell (point location of random points =
    exactly one), weight = volume, and every split conserves weight and volume (monitor on divide).
"""
import os
import sys

sys.path.insert(0, os.path.dirname(os.path.dirname(os.path.abspath(__file__))))
from vlib import env, harness, gen_systems, gen_pg, monitors  # noqa: E402
import numpy as np  # noqa: E402

PROP = "C06"


def setup(ctx):
    env.import_wb()
    return {}


def trivial_system(rng, lattice, generators, periodic=(True, True, True)):
    iR = np.array([[0, 0, 0]])
    mats = {"Ham": np.zeros((1, 1, 1), dtype=complex)}
    s = gen_systems.make_system(lattice, iR, mats, np.zeros((1, 3)), periodic=periodic)
    s.set_pointgroup(generators)
    return s


def orbit_cover(K_list, mats, div, fft):
    """brute force: for every retained K-point, the set of grid points reached by the symmetry images of
    its FFT sub-points.  returns cover multiplicity array and the list of orbit sizes"""
    N = np.array(div) * np.array(fft)
    cover = np.zeros(tuple(N), dtype=int)
    sizes = []
    sub = np.array([(i, j, k) for i in range(fft[0]) for j in range(fft[1]) for k in range(fft[2])])
    for K in K_list:
        k_full = (np.asarray(K.K)[None, :] + sub) / np.array(fft)[None, :]
        imgs = set()
        for A in mats:
            kk = k_full @ A
            idx = np.rint(kk * N[None, :]).astype(int)
            if np.abs(kk * N[None, :] - idx).max() > 1e-6:
                return None, None  # image is not a grid point: grid not symmetric (cannot happen for accepted grids)
            idx %= N[None, :]
            imgs.update(map(tuple, idx.tolist()))
        for i in imgs:
            cover[i] += 1
        sizes.append(len(imgs))
    return cover, sizes


def density(K_list, mats, xs):
    """rho(x) for parallelepiped K-points (see module docstring)"""
    rho = np.zeros(len(xs))
    ys = np.array([xs @ A for A in mats])  # (ng, n, 3) images of the probe points
    for K in K_list:
        f = float(K.factor)
        if f == 0.0:
            continue
        fft = np.asarray(K.NKFFT, dtype=float)
        dK = np.asarray(K.dK, dtype=float)
        d = ((ys * fft[None, None, :] - np.asarray(K.K)[None, None, :] + 0.5) % 1.0) - 0.5
        inside = np.all(np.abs(d) < dK[None, None, :] / 2, axis=2)
        rho += f / np.prod(dK) * inside.sum(axis=0) / len(mats)
    return rho


def boxes_map_to_boxes(mats):
    """True if every operation acts on reduced coordinates as a signed permutation (then the image of a
    K-point cell is again a cell of the grid and 'images of cells tile the BZ' is a meaningful exact statement)"""
    for A in mats:
        B = np.abs(A)
        if not (np.allclose(B, np.round(B), atol=1e-9) and np.allclose(B.sum(axis=0), 1) and np.allclose(B.sum(axis=1), 1)
                and np.allclose(np.sort(B, axis=0)[-1], 1)):
            return False
    return True


def make_equiv_oracle(mats):
    """independent test that two K-points (same level, same cell size) are images of each other: some operation
    maps the full-BZ point of one onto a full-BZ point of the other (mod the periodicity 1/NKFFT)"""
    def equiv(K1, K2):
        if K1.refinement_level != K2.refinement_level:
            return False
        if not np.allclose(K1.dK, K2.dK, rtol=1e-12, atol=0):
            return False
        fft = np.asarray(K1.NKFFT, dtype=float)
        k1 = np.asarray(K1.K, dtype=float) / fft
        for A in mats:
            d = (k1 @ A) * fft - np.asarray(K2.K, dtype=float)
            if np.abs(d - np.round(d)).max() < 1e-7:
                return True
        return False
    return equiv


def tetra_locate(K_list, xs):
    """number of alive tetrahedra containing each point (points in the scaled cell [-1/2,1/2)^3)"""
    cnt = np.zeros(len(xs), dtype=int)
    wsum = np.zeros(len(xs))
    for K in K_list:
        if float(K.factor) == 0.0:
            continue
        V = np.asarray(K.vertices) + np.asarray(K.K)[None, :]
        A = np.vstack([V.T, np.ones(4)])
        lam = np.linalg.solve(A, np.vstack([xs.T, np.ones(len(xs))]))
        inside = np.all(lam > 1e-12, axis=0)
        cnt += inside
    return cnt


def case(ctx, rng, idx, state):
    import wannierberri as wb
    from wannierberri.grid import Grid, GridTetra
    from wannierberri.symmetry.point_symmetry import PointGroup

    mode = ["klist", "klist", "refine", "refine", "tetra"][idx % 5]
    # ------------------------------------------------------------------------------------------
    if mode in ("klist", "refine"):
        # a quarter of the cases: groups whose operations shear the reduced axes (centred lattices in primitive
        # setting): there anisotropic NKdiv/NKFFT splits are symmetric although the axes are mixed
        sheared = rng.random() < 0.3
        adjusted_grid = (mode == "klist" and idx % 10 == 1)   # NK and NKFFT chosen independently: determineNK has to round NK/NKFFT
        aniso_fft = (mode == "klist" and idx % 10 == 6)       # sheared group with different FFT sizes along the mixed axes
        if adjusted_grid or aniso_fft:
            sheared = True
        entry = gen_pg.pick(rng, sheared=sheared)
        tr = ["none", "grey", "bw"][int(rng.integers(3))]
        gens = gen_pg.make_generators(entry["gens"], time_reversal=tr, rng=rng)
        lattice = entry["lattice"]
        if rng.random() < 0.3 and entry["kind"] == "triclinic":
            lattice = gen_systems.random_lattice(rng)
        system = trivial_system(rng, lattice, gens)
        pg = system.pointgroup
        order = entry["order"] * (2 if tr == "grey" else 1)
        ctx.ev()
        if tr != "bw" and pg.size != order:  # (a black-white variant may or may not contain pure time reversal)
            ctx.violation("point_group_has_wrong_order", f"{entry['name']} tr={tr}: {pg.size} != {order}",
                          dict(group=entry["name"], tr=tr))
        mats = gen_pg.group_matrices(pg)
        nmax = 4 if mode == "refine" else (6 if ctx.thorough else 5)
        force = entry["mixed"] if (rng.random() < 0.5 and not sheared) else ()
        div = gen_pg.symmetric_sizes(pg, rng, nmax=nmax if mode == "klist" else 3, mixed=force)
        fft = gen_pg.symmetric_sizes(pg, rng, nmax=3 if mode == "klist" else 2, mixed=force)
        if (adjusted_grid or aniso_fft) and len(entry["mixed"]) > 1:
            for _ in range(30):    # sizes that differ along the mixed axes (accepted by the group in these settings)
                if np.any(fft[list(entry["mixed"])] != fft[entry["mixed"][0]]):
                    break
                fft = gen_pg.symmetric_sizes(pg, rng, nmax=3, mixed=())
            if aniso_fft:
                for _ in range(30):
                    if np.prod(div) > 1:
                        break
                    div = gen_pg.symmetric_sizes(pg, rng, nmax=nmax, mixed=())
        wit = dict(mode=mode, group=entry["name"], tr=tr, lattice=lattice, NKdiv=div, NKFFT=fft)
        how = "NKdiv,NKFFT"
        if mode == "klist" and (adjusted_grid or rng.random() < 0.35):
            # the other documented ways of specifying the grid: whatever split determineNK chooses must be a symmetric grid that partitions the BZ
            how = ["NK", "NK,NKFFT", "length", "length,NKFFT", "NK_scalar"][int(rng.integers(5))]
            NK = div * fft
            if adjusted_grid:
                how = "NK,NKFFT"
                NK = gen_pg.symmetric_sizes(pg, rng, nmax=6, mixed=())
                if len(entry["mixed"]) > 1 and rng.random() < 0.7:
                    # equal odd sizes along the mixed axes, FFT sizes 1 and 2 there: rounding NK/NKFFT breaks the equality
                    a, b = entry["mixed"][:2]
                    NK2, fft2 = NK.copy(), fft.copy()
                    NK2[[a, b]] = int(rng.choice([3, 5]))
                    fft2[a], fft2[b] = (1, 2) if rng.random() < 0.5 else (2, 1)
                    if pg.symmetric_grid(NK2) and pg.symmetric_grid(fft2):
                        NK, fft = NK2, fft2
                ctx.count("grid_NK_not_multiple_of_NKFFT", int(np.any(NK % fft != 0)))
            import warnings
            with warnings.catch_warnings():
                warnings.simplefilter("ignore")
                try:
                    if how == "NK":
                        grid = Grid(system, NK=NK)
                    elif how == "NK,NKFFT":
                        grid = Grid(system, NK=NK, NKFFT=fft)
                    elif how == "NK_scalar":
                        n = int(NK.max())
                        grid = Grid(system, NK=n) if pg.symmetric_grid([n] * 3) else Grid(system, NK=NK)
                    else:
                        L = float(rng.uniform(6, 30))
                        NKl = np.array(np.round(L / (2 * np.pi) * np.linalg.norm(pg.recip_lattice, axis=1)), dtype=int)
                        if np.any(NKl < 1) or np.prod(NKl) > 400 or not pg.symmetric_grid(NKl):
                            raise harness.Skip("length gives an empty, too large or non-symmetric grid (documented assertion)")
                        grid = Grid(system, length=L) if how == "length" else Grid(system, length=L, NKFFT=fft)
                except AssertionError as e:
                    if "not consistent with the given symmetry" in str(e):
                        raise harness.Skip("requested sizes rejected as non-symmetric (documented assertion)")
                    raise
            div, fft = np.array(grid.div), np.array(grid.FFT)
            if np.prod(div) * np.prod(fft) > 3000:
                raise harness.Skip("grid too large for the budget")
            wit.update(NKdiv=div, NKFFT=fft, grid_specified_by=how)
            ctx.count("grid_specified_by_NK_or_length")
        else:
            grid = Grid(system, NKdiv=div, NKFFT=fft)
            if not (np.all(grid.div == div) and np.all(grid.FFT == fft)):
                raise harness.Skip("grid adjusted by determineNK")

    if mode == "klist":
        for use_sym in (True, False):
            Kl = grid.get_K_list(use_symmetry=use_sym)
            fac = np.array([K.factor for K in Kl])
            ctx.ev()
            if np.any(fac < 0):
                ctx.violation("negative_K-point_weight", f"min {fac.min()}", wit)
            ctx.close("K-point_weights_do_not_sum_to_one", fac.sum(), 1.0, rtol=1e-12, what=f"use_symmetry={use_sym}", witness=wit)
            m = mats if use_sym else [np.eye(3)]
            cover, sizes = orbit_cover(Kl, m, div, fft)
            ctx.ev()
            if cover is None:
                ctx.violation("symmetry_image_of_a_grid_point_is_not_a_grid_point", "accepted grid is not symmetric", wit)
                continue
            if cover.min() != 1 or cover.max() != 1:
                vals, cnts = np.unique(cover, return_counts=True)
                ctx.violation("symmetry_images_of_retained_points_do_not_cover_each_grid_point_exactly_once",
                              f"cover multiplicities {dict(zip(vals.tolist(), cnts.tolist()))} (use_symmetry={use_sym}, {len(Kl)} K-points)", wit)
            Ntot = float(np.prod(div) * np.prod(fft))
            ctx.close("K-point_weight_is_not_its_orbit_size/N", fac, np.array(sizes) / Ntot, rtol=1e-12, atol=1e-15,
                      what=f"use_symmetry={use_sym}", witness=wit)
        mon = monitors.RunMonitor()
        mon.equiv_oracle = make_equiv_oracle(mats)
        with mon:
            Kl = grid.get_K_list(use_symmetry=True)
        mon.flush_to(ctx, witness=wit)
        if boxes_map_to_boxes(mats) and np.all(div[list(entry["mixed"])] == div[entry["mixed"][0]] if len(entry["mixed"]) > 1 else True) \
                and np.all(fft[list(entry["mixed"])] == fft[entry["mixed"][0]] if len(entry["mixed"]) > 1 else True):
            xs = rng.uniform(0, 1, (300, 3))
            ctx.close("density_of_symmetrised_K-point_measure_is_not_one", density(Kl, mats, xs), np.ones(len(xs)), rtol=1e-10,
                      what="level-0 density", witness=wit)
            ctx.count("density_oracle_cases")
        if len(Kl) < np.prod(div):
            ctx.nontrivial(("klist", entry["name"], tr, tuple(div.tolist()), tuple(fft.tolist())))
        if len(entry["mixed"]) > 1 and np.any(fft[list(entry["mixed"])] != fft[entry["mixed"][0]]) and len(Kl) < np.prod(div):
            ctx.count("anisotropic_FFT_on_mixed_axes")
        ctx.count("klist_cases")
        ctx.sample(dict(mode=mode, group=entry["name"], tr=tr, NKdiv=div, NKFFT=fft, n_irreducible=len(Kl), group_order=pg.size))
        return

    # ------------------------------------------------------------------------------------------
    if mode == "refine":
        use_irred = bool(rng.random() < 0.75)
        adpt_mesh = int(rng.integers(2, 4)) if rng.random() < 0.7 else [int(x) for x in rng.integers(1, 4, size=3)]
        if not use_irred:
            pass
        elif isinstance(adpt_mesh, list):
            m_ = np.array(adpt_mesh)
            if not pg.symmetric_grid(m_ * div):
                adpt_mesh = int(max(2, m_.max()))
        if np.max(adpt_mesh) <= 1:
            adpt_mesh = 2
        adpt_fac = int(rng.integers(1, 5))
        niter = int(rng.integers(1, 5 if ctx.thorough else 4))
        salt = int(rng.integers(1 << 30))
        calcs = {"stub": monitors.make_stub_calculator(salt=salt), "stub2": monitors.make_stub_calculator(salt=salt + 1, nE=2, rank=1)}
        wit.update(use_irred_kpt=use_irred, adpt_mesh=adpt_mesh, adpt_fac=adpt_fac, adpt_num_iter=niter, salt=salt)
        mon = monitors.RunMonitor()
        gm = mats if use_irred else [np.eye(3)]
        mon.equiv_oracle = make_equiv_oracle(gm)
        xs = rng.uniform(0, 1, (250, 3))
        hist = []
        mesh3 = np.array([adpt_mesh] * 3 if np.isscalar(adpt_mesh) else adpt_mesh)
        mx = list(entry["mixed"])
        iso = (len(mx) < 2) or (np.all(div[mx] == div[mx[0]]) and np.all(fft[mx] == fft[mx[0]]) and np.all(mesh3[mx] == mesh3[mx[0]]))
        use_density = (not use_irred) or (boxes_map_to_boxes(mats) and iso)

        def before(K_list, it):
            hist.append(dict(iteration=it, nK=len(K_list), alive=sum(1 for K in K_list if K.factor > 0),
                             levels=sorted({int(K.refinement_level) for K in K_list})))
            if use_density:
                rho = density(K_list, gm, xs)
                ctx.close("density_of_symmetrised_K-point_measure_is_not_one", rho, np.ones(len(xs)), rtol=1e-9,
                          what=f"iteration {it}", witness=dict(case=wit, history=hist))
                ctx.count("density_oracle_cases")
        mon.before_process.append(before)
        tmp = os.path.join(env.WORK, f"c06-{os.getpid()}")
        os.makedirs(tmp, exist_ok=True)
        with monitors.chdir(tmp), mon:
            wb.run(system, grid, calcs, adpt_num_iter=niter, adpt_mesh=adpt_mesh, adpt_fac=adpt_fac, use_irred_kpt=use_irred,
                   symmetrize=use_irred, parallel=False, fout_name="c06", print_progress_step_time=1e9)
        mon.flush_to(ctx, witness=wit)
        merged = mon.counters.get("points_merged[run]", 0) + mon.counters.get("points_merged[divide]", 0)
        if mon.counters.get("divide_calls", 0) > 0:
            ctx.nontrivial(("refine", entry["name"], tr, tuple(div.tolist()), tuple(fft.tolist()), use_irred, str(adpt_mesh), adpt_fac, niter, merged > 0))
        ctx.count("refinement_histories")
        ctx.count("histories_with_symmetry_merges", int(merged > 0))
        ctx.sample(dict(mode=mode, group=entry["name"], tr=tr, NKdiv=div, NKFFT=fft, use_irred_kpt=use_irred, adpt_mesh=adpt_mesh,
                        adpt_fac=adpt_fac, history=hist, merged_points=merged))
        return

    # ------------------------------------------------------------------------------------------
    if mode == "tetra":
        lattice = gen_systems.random_lattice(rng) if rng.random() < 0.5 else gen_systems.bravais_lattice(rng)[1]
        system = trivial_system(rng, lattice, [])
        length = float(rng.uniform(4, 14))
        fft = [int(x) for x in rng.integers(1, 3, size=3)]
        opts = dict(refine_by_volume=bool(rng.random() < 0.7), refine_by_size=bool(rng.random() < 0.7))
        wit = dict(mode=mode, lattice=lattice, length=length, NKFFT=fft, **opts)
        mon = monitors.RunMonitor()
        with mon:
            grid = GridTetra(system, length=length, NKFFT=fft, **opts)
            xs = rng.uniform(-0.5, 0.5, (400, 3))
            hist = []

            def before(K_list, it):
                cnt = tetra_locate(K_list, xs)
                hist.append(dict(iteration=it, n=len(K_list)))
                ctx.ev()
                if cnt.min() != 1 or cnt.max() != 1:
                    ctx.violation("tetrahedra_do_not_tile_the_reciprocal_cell",
                                  f"iteration {it}: location counts {np.unique(cnt, return_counts=True)}", dict(case=wit, history=hist))
                vol = np.array([monitors._tetra_volume(np.asarray(K.vertices)) for K in K_list if K.factor > 0])
                fac = np.array([K.factor for K in K_list if K.factor > 0])
                ctx.close("tetrahedron_weight_is_not_its_volume", fac, vol, rtol=1e-11, what=f"iteration {it}", witness=wit)
            mon.before_process.append(before)
            niter = int(rng.integers(0, 4))
            salt = int(rng.integers(1 << 30))
            calcs = {"stub": monitors.make_stub_calculator(salt=salt)}
            tmp = os.path.join(env.WORK, f"c06-{os.getpid()}")
            os.makedirs(tmp, exist_ok=True)
            with monitors.chdir(tmp):
                wb.run(system, grid, calcs, adpt_num_iter=niter, adpt_fac=int(rng.integers(1, 4)), use_irred_kpt=False,
                       symmetrize=False, parallel=False, fout_name="c06", print_progress_step_time=1e9)
        mon.flush_to(ctx, witness=wit)
        if mon.counters.get("divide_tetra_calls", 0) > 0:
            ctx.nontrivial(("tetra", round(length, 3), tuple(fft), niter, opts["refine_by_volume"], opts["refine_by_size"]))
        ctx.count("tetra_histories")
        ctx.sample(dict(mode=mode, length=length, NKFFT=fft, history=hist, splits=mon.counters.get("divide_tetra_calls", 0)))


if __name__ == "__main__":
    harness.main(
        PROP, "fault_enumeration", case, setup_fn=setup,
        tiers=dict(quick=dict(cases=160, shards=8, time=900), thorough=dict(cases=4000, shards=16, time=3000)),
        rule="40 (lattice, point group) pairs x {no TR, grey, black-white} x random symmetric NKdiv/NKFFT (incl. anisotropic FFT on axes mixed by "
             "the group); refinement histories chosen by a pseudo-random adversary (stub calculator), adpt_mesh 2-3 or anisotropic, adpt_fac 1-4, "
             "1-4 iterations, irreducible or full; tetrahedral grids with random length/NKFFT/split options and 0-3 refinement iterations. "
             "non-trivial = symmetry reduced the list / at least one cell was divided; distinct by the full parameter tuple",
        assumptions=["oracle = brute-force rasterisation and point-sampled density with the group acting on full-BZ reduced k, matrices computed by the harness "
                     "from the cartesian rotation and the TR/inversion flags", "random probe points are generic (cell boundaries have measure zero)"],
        required_counters=("grid_specified_by_NK_or_length", "grid_NK_not_multiple_of_NKFFT", "klist_cases", "refinement_histories", "tetra_histories", "mon:divide_calls", "mon:divide_tetra_calls",
                           "histories_with_symmetry_merges", "density_oracle_cases", "mon:merge_equivalence_checked",
                           "anisotropic_FFT_on_mixed_axes"),
    )
