"""Reference oracles written in the harness (independent of the code paths under test)."""
import itertools
from fractions import Fraction
import numpy as np


def ft_explicit(X_R, iRvec, lattice, k_red, der=0, shifts_left_red=None, shifts_right_red=None):
    """sum_R exp(2 pi i k.R) X_ab(R) prod_{c}( i (R + t_b - t_a)_c )   (convention of Rvectors.R_to_k)

    X_R : (nR, nw, nw, ...)   returns (nw, nw, ..., 3*der)"""
    X_R = np.asarray(X_R)
    iRvec = np.asarray(iRvec)
    nw_l, nw_r = X_R.shape[1], X_R.shape[2]
    tl = np.zeros((nw_l, 3)) if shifts_left_red is None else np.asarray(shifts_left_red)
    tr = tl if shifts_right_red is None else np.asarray(shifts_right_red)
    if tl.shape[0] == 1 and nw_l > 1:
        tl = np.repeat(tl, nw_l, axis=0)
    if tr.shape[0] == 1 and nw_r > 1:
        tr = np.repeat(tr, nw_r, axis=0)
    phase = np.exp(2j * np.pi * (iRvec @ np.asarray(k_red, dtype=float)))
    res = np.zeros(X_R.shape[1:] + (3,) * der, dtype=complex)
    for ir, R in enumerate(iRvec):
        term = X_R[ir] * phase[ir]
        if der > 0:
            # cartesian (R + t_b - t_a), shape (nw_l, nw_r, 3)
            d = (R[None, None, :] + tr[None, :, :] - tl[:, None, :]) @ lattice
            for _ in range(der):
                term = term[..., None] * (1j * d).reshape((nw_l, nw_r) + (1,) * (term.ndim - 2) + (3,))
        res += term
    return res


# ------------------------------------------------------------------------------------------
#  exact linear-tetrahedron volume fraction (Curry-Schoenberg / truncated power form)
# ------------------------------------------------------------------------------------------

def _F(x):
    return Fraction(x) if not isinstance(x, Fraction) else x


def tetra_fraction_exact(E, corners, der=0):
    """fraction of the tetrahedron with linearly interpolated corner energies below E (der=0) or its
    der-th E-derivative, in exact rational arithmetic.  Corners must be pairwise distinct."""
    E = _F(E)
    e = [_F(c) for c in corners]
    tot = Fraction(0)
    for i in range(4):
        if e[i] < E:
            den = Fraction(1)
            for j in range(4):
                if j != i:
                    den *= (e[j] - e[i])
            x = E - e[i]
            if der == 0:
                num = x ** 3
            elif der == 1:
                num = 3 * x ** 2
            elif der == 2:
                num = 6 * x
            elif der == 3:
                num = Fraction(6)
            else:
                raise ValueError(der)
            tot += num / den
    # the truncated power form gives   V(E) = sum_{e_i<E} (E-e_i)^3 / prod_{j!=i}(e_j-e_i)
    return tot


def separate_exact(corners, delta=Fraction(1, 10 ** 30)):
    """exact rational copies of the corners with coincident values split by +-delta multiples,
    returns (lower_shifted, upper_shifted): corner sets that bracket the true fraction because
    the fraction below E is non-increasing in every corner energy."""
    e = sorted(_F(c) for c in corners)
    up = list(e)
    lo = list(e)
    # raise ties -> smaller fraction ; lower ties -> larger fraction
    for i in range(1, 4):
        if up[i] <= up[i - 1]:
            up[i] = up[i - 1] + delta
    for i in range(2, -1, -1):
        if lo[i] >= lo[i + 1]:
            lo[i] = lo[i + 1] - delta
    return lo, up


def tetra_bracket(E, corners):
    """rigorous [lower, upper] bracket of the occupied fraction for any real corners (ties allowed)"""
    lo_c, up_c = separate_exact(corners)
    upper = tetra_fraction_exact(E, lo_c)
    lower = tetra_fraction_exact(E, up_c)
    return lower, upper


def ulp(x):
    return float(np.spacing(abs(float(x)))) if x != 0 else float(np.spacing(0.0))


# ------------------------------------------------------------------------------------------
#  band groups
# ------------------------------------------------------------------------------------------

def components(E, thresh, strict=False):
    """connected components of 'gap <= thresh' ('< thresh' if strict) of a sorted array: list of (i1,i2)"""
    E = np.asarray(E)
    out = []
    start = 0
    for i in range(1, len(E)):
        gap = E[i] - E[i - 1]
        joined = (gap < thresh) if strict else (gap <= thresh)
        if not joined:
            out.append((start, i))
            start = i
    if len(E) > 0:
        out.append((start, len(E)))
    return out


def all_permutations(n):
    return list(itertools.permutations(range(n)))
