"""Workloads for the checks that drive wannierberri.run(): small generic systems, calculator baskets,
harness-side re-evaluation of a single K-point, comparison of ResultDicts."""
import numpy as np
from . import gen_systems, gen_pg


def make_run_system(rng, with_group=False, num_wann=None, keys=None, sheared=False, max_order=16):
    """a small generic Hermitian system; if with_group, a point group compatible with the lattice is
    *declared* (the system itself is generic - bookkeeping identities must hold regardless)"""
    if num_wann is None:
        num_wann = int(rng.integers(2, 4))
    if keys is None:
        keys = ("Ham",) if rng.random() < 0.4 else (("Ham", "AA") if rng.random() < 0.5 else ("Ham", "AA", "SS"))
    info = dict(group="1", tr="none")
    if with_group:
        while True:
            entry = gen_pg.pick(rng, sheared=sheared)
            if entry["order"] <= max_order:
                break
        tr = ["none", "grey", "bw"][int(rng.integers(3))]
        lattice = entry["lattice"]
        info = dict(group=entry["name"], tr=tr, mixed=entry["mixed"])
    else:
        lattice = gen_systems.random_lattice(rng)
    system = gen_systems.herm_system(rng, num_wann=num_wann, lattice=lattice, radius=rng.uniform(1.0, 1.8), keys=keys,
                                     centers="random", bandwidth=1.0)
    if with_group:
        system.set_pointgroup(gen_pg.make_generators(entry["gens"], time_reversal=tr, rng=rng))
    info.update(num_wann=num_wann, keys=list(keys), lattice=lattice)
    return system, info


def fermi_grid(rng, system, n=None):
    emin, emax, _ = gen_systems.bandwidth(system, nk=3)
    if n is None:
        n = int(rng.integers(3, 8))
    lo = emin + rng.uniform(0.05, 0.3) * (emax - emin)
    hi = emax - rng.uniform(0.05, 0.3) * (emax - emin)
    Ef = np.linspace(lo, hi, n) + rng.uniform(0, 1e-3)
    return Ef


def make_calculators(rng, system, Ef, nmax=4, allow_tetra=True, pool=None):
    from wannierberri import calculators as calc
    has_AA = system.has_R_mat("AA")
    has_SS = system.has_R_mat("SS")
    ext = dict(kwargs_formula={"external_terms": bool(has_AA)})
    avail = {
        "CumDOS": lambda t: calc.static.CumDOS(Efermi=Ef, tetra=t),
        "DOS": lambda t: calc.static.DOS(Efermi=Ef, tetra=t),
        "AHC": lambda t: calc.static.AHC(Efermi=Ef, tetra=t, **ext),
        "Ohmic_sea": lambda t: calc.static.Ohmic_FermiSea(Efermi=Ef, tetra=t),
        "Ohmic_surf": lambda t: calc.static.Ohmic_FermiSurf(Efermi=Ef, tetra=t),
        "BerryDipole_sea": lambda t: calc.static.BerryDipole_FermiSea(Efermi=Ef, tetra=t, **ext),
    }
    if has_SS:
        avail["Spin"] = lambda t: calc.static.Spin(Efermi=Ef, tetra=t)
    names = sorted(avail) if pool is None else [n for n in pool if n in avail]
    k = int(rng.integers(1, min(nmax, len(names)) + 1))
    chosen = [names[i] for i in sorted(rng.choice(len(names), size=k, replace=False))]
    out = {}
    for nme in chosen:
        t = bool(allow_tetra and rng.random() < 0.3)
        out[nme + ("_tetra" if t else "")] = avail[nme](t)
    return out


def evaluate_K(system, grid, calculators, Kpoint, symmetrize, parameters_K=None, data_k_class=None):
    """what run()'s per-K function does, re-done by the harness on a fresh data object"""
    from wannierberri.data_K import get_data_k_class_from_system
    from wannierberri.result import ResultDict
    if data_k_class is None:
        data_k_class = get_data_k_class_from_system(system)
    data = data_k_class(system, dK=Kpoint.Kp_fullBZ, grid=grid, Kpoint=Kpoint, **(parameters_K or {}))
    res = ResultDict({k: v(data) for k, v in calculators.items()})
    if symmetrize:
        res = system.pointgroup.symmetrize(res)
    return res


def weighted_sum(system, grid, calculators, K_list, symmetrize, parameters_K=None, cache=None):
    """sum_K factor_K * result_K recomputed from scratch (once per K-point object if a cache dict is given),
    and the natural scale sum_K |factor_K| * max|result_K| per key"""
    total = None
    scale = {k: 0.0 for k in calculators}
    n = 0
    for K in K_list:
        f = float(K.factor)
        if f == 0.0:
            continue
        if cache is not None and id(K) in cache:
            r = cache[id(K)][1]
        else:
            r = evaluate_K(system, grid, calculators, K, symmetrize, parameters_K)
            if cache is not None:
                cache[id(K)] = (K, r)  # keep K alive so that id() stays unique
        n += 1
        for k in calculators:
            scale[k] += abs(f) * float(np.abs(r.results[k].data).max())
        total = r * f if total is None else total + r * f
    return total, scale, n


def result_data(res, key):
    return np.asarray(res.results[key].data)


def raw_twins(calcs):
    """for static calculators that post-process their integral (antisymmetrisation etc. in an overridden __call__),
    a twin that integrates the same Formula with the same factor but without the post-processing: its magnitude is
    the natural scale of the quantity (the post-processed value may vanish identically and then consists of rounding
    noise only, which must not be judged relative to itself)"""
    from wannierberri.calculators.static import StaticCalculator
    out = {}
    for key, c in calcs.items():
        if isinstance(c, StaticCalculator) and type(c).__call__ is not StaticCalculator.__call__:
            out["_raw_" + key] = StaticCalculator(Efermi=c.Efermi, Formula=c.Formula, fder=c.fder, tetra=c.tetra, kwargs_formula=c.kwargs_formula,
                                                  constant_factor=c.constant_factor, use_factor=c.use_factor, degen_thresh=c.degen_thresh,
                                                  degen_Kramers=c.degen_Kramers, save_mode="none")
    return out


def natural_scale(results, key):
    """max |value| of `key` over a list of ResultDicts, and of its raw twin if present"""
    sc = 0.0
    for r in results:
        sc = max(sc, float(np.abs(r.results[key].data).max()))
        if "_raw_" + key in r.results:
            tw = r.results["_raw_" + key].data
            vol = 1.0
            sc = max(sc, float(np.abs(tw).max()) * vol)
    return sc


def big_basket(rng, wb, system, Ef, omega, tetra_ok=True, kmin=2, kmax=4, tab_mode="grid", options=True):
    """calculators for metamorphic comparisons.  With options=True the documented grouping options of every calculator are drawn too
    (degen_thresh; degen_Kramers for an even number of bands): relations such as invariance under the FFT factorisation or under
    relabelling hold for any grouping of the bands.  The drawn options are left in big_basket.last_options (for witnesses)."""
    c = wb.calculators
    o = {}
    if options and rng.random() < 0.5:
        o["degen_thresh"] = float(10 ** rng.uniform(-6, -2))
        if system.num_wann % 2 == 0 and rng.random() < 0.4:
            o["degen_Kramers"] = True
    big_basket.last_options = dict(o)
    has_AA = system.has_R_mat("AA")
    has_SS = system.has_R_mat("SS")
    ext = dict(kwargs_formula={"external_terms": bool(has_AA)})
    pool = {
        "CumDOS": lambda t: c.static.CumDOS(Efermi=Ef, tetra=t, **o),
        "DOS": lambda t: c.static.DOS(Efermi=Ef, tetra=t, **o),
        "AHC": lambda t: c.static.AHC(Efermi=Ef, tetra=t, **ext, **o),
        "Ohmic_sea": lambda t: c.static.Ohmic_FermiSea(Efermi=Ef, tetra=t, **o),
        "Ohmic_surf": lambda t: c.static.Ohmic_FermiSurf(Efermi=Ef, tetra=t, **o),
        "BerryDipole_sea": lambda t: c.static.BerryDipole_FermiSea(Efermi=Ef, tetra=t, **ext, **o),
        "BerryDipole_surf": lambda t: c.static.BerryDipole_FermiSurf(Efermi=Ef, tetra=t, **ext, **o),
        "NLDrude_fder2": lambda t: c.static.NLDrude_Fermider2(Efermi=Ef, tetra=t, **o),
        "NLDrude_sea": lambda t: c.static.NLDrude_FermiSea(Efermi=Ef, tetra=t, **o),
        "Hall_classic_surf": lambda t: c.static.Hall_classic_FermiSurf(Efermi=Ef, tetra=t, **o),
        "JDOS": lambda t: c.dynamic.JDOS(Efermi=Ef[::2], omega=omega, smr_fixed_width=0.2, **o),
        "OptCond": lambda t: c.dynamic.OpticalConductivity(Efermi=Ef[::2], omega=omega, smr_fixed_width=0.2, kBT=0.02, **ext, **o),
    }
    if has_SS:
        pool["Spin"] = lambda t: c.static.Spin(Efermi=Ef, tetra=t, **o)
        pool["GME_spin_surf"] = lambda t: c.static.GME_spin_FermiSurf(Efermi=Ef, tetra=t, **o)
    names = sorted(pool)
    k = int(rng.integers(kmin, kmax + 1))
    chosen = [names[i] for i in sorted(rng.choice(len(names), size=min(k, len(names)), replace=False))]
    out = {}
    for nme in chosen:
        t = bool(tetra_ok and rng.random() < 0.3 and nme not in ("JDOS", "OptCond"))
        out[nme + ("_tetra" if t else "")] = pool[nme](t)
    tabs = {"Energy": c.tabulate.Energy(**o), "BerryCurvature": c.tabulate.BerryCurvature(kwargs_formula={"external_terms": bool(has_AA)}, **o),
            "Velocity": c.tabulate.Velocity(**o)}
    out["tab"] = c.tabulate.TabulatorAll(tabs, mode=tab_mode)
    return out


