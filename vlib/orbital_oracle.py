"""Independent oracle for the transformation of real atomic orbitals under O(3) (used by C21, reusable by C20/C24).

The orbitals are the normalised real spherical harmonics in the Wannier90 order and the Wannier90 hybrids
(typed from the Wannier90 user guide, tables 3.1/3.2, *not* read from the repository).  The matrix of a rotation is the
overlap integral on the unit sphere, evaluated by an exact product quadrature (Gauss-Legendre in cos(theta) x uniform
in phi; exact for polynomials up to degree 15 > 2*3):

    D_ij(R; b1, b2) = < phi_i^(b2) | O_R phi_j^(b1) > = Int dOmega  phi_i(b2 r) phi_j(b1 R^-1 r)

where b1, b2 are the local frames (rows = local x, y, z axes) of the source / target site, i.e.
O_R phi_j^(b1) = sum_i phi_i^(b2) D_ij  whenever the span is invariant.
"""
import numpy as np

PI = np.pi
SHELL_ORBITALS = {
    "s": ["s"],
    "p": ["pz", "px", "py"],
    "d": ["dz2", "dxz", "dyz", "dx2-y2", "dxy"],
    "f": ["fz3", "fxz2", "fyz2", "fzx2-zy2", "fxyz", "fx3-3xy2", "f3yx2-y3"],
    # sub-shells / hybrids accepted by the repository's projections (names and order are part of its API)
    "sp": ["sp-1", "sp-2"],
    "p2": ["pz", "py"],
    "pxy": ["px", "py"],
    "sp2": ["sp2-1", "sp2-2", "sp2-3"],
    "pz": ["pz"],
    "sp3": ["sp3-1", "sp3-2", "sp3-3", "sp3-4"],
    "sp3d2": ["sp3d2-1", "sp3d2-2", "sp3d2-3", "sp3d2-4", "sp3d2-5", "sp3d2-6"],
    "t2g": ["dxz", "dyz", "dxy"],
    "eg": ["dx2-y2", "dz2"],
}
FULL_SHELLS = ["s", "p", "d", "f"]
HYBRID_SHELLS = ["sp", "p2", "pxy", "sp2", "pz", "sp3", "sp3d2", "t2g", "eg"]
ANGULAR_MOMENTUM = {"s": 0, "p": 1, "d": 2, "f": 3}

BASIC = {
    "s": lambda x, y, z: 0.5 / np.sqrt(PI) + 0 * x,
    "pz": lambda x, y, z: np.sqrt(3 / (4 * PI)) * z,
    "px": lambda x, y, z: np.sqrt(3 / (4 * PI)) * x,
    "py": lambda x, y, z: np.sqrt(3 / (4 * PI)) * y,
    "dz2": lambda x, y, z: np.sqrt(5 / (16 * PI)) * (2 * z * z - x * x - y * y),
    "dxz": lambda x, y, z: np.sqrt(15 / (4 * PI)) * x * z,
    "dyz": lambda x, y, z: np.sqrt(15 / (4 * PI)) * y * z,
    "dx2-y2": lambda x, y, z: np.sqrt(15 / (16 * PI)) * (x * x - y * y),
    "dxy": lambda x, y, z: np.sqrt(15 / (4 * PI)) * x * y,
    "fz3": lambda x, y, z: np.sqrt(7 / (16 * PI)) * z * (2 * z * z - 3 * x * x - 3 * y * y),
    "fxz2": lambda x, y, z: np.sqrt(21 / (32 * PI)) * x * (4 * z * z - x * x - y * y),
    "fyz2": lambda x, y, z: np.sqrt(21 / (32 * PI)) * y * (4 * z * z - x * x - y * y),
    "fzx2-zy2": lambda x, y, z: np.sqrt(105 / (16 * PI)) * z * (x * x - y * y),
    "fxyz": lambda x, y, z: np.sqrt(105 / (4 * PI)) * x * y * z,
    "fx3-3xy2": lambda x, y, z: np.sqrt(35 / (32 * PI)) * x * (x * x - 3 * y * y),
    "f3yx2-y3": lambda x, y, z: np.sqrt(35 / (32 * PI)) * y * (3 * x * x - y * y),
}
s2, s3, s6, s12 = np.sqrt(2), np.sqrt(3), np.sqrt(6), np.sqrt(12)
HYBRIDS = {
    "sp-1": {"s": 1 / s2, "px": 1 / s2},
    "sp-2": {"s": 1 / s2, "px": -1 / s2},
    "sp2-1": {"s": 1 / s3, "px": -1 / s6, "py": 1 / s2},
    "sp2-2": {"s": 1 / s3, "px": -1 / s6, "py": -1 / s2},
    "sp2-3": {"s": 1 / s3, "px": 2 / s6},
    "sp3-1": {"s": 0.5, "px": 0.5, "py": 0.5, "pz": 0.5},
    "sp3-2": {"s": 0.5, "px": 0.5, "py": -0.5, "pz": -0.5},
    "sp3-3": {"s": 0.5, "px": -0.5, "py": 0.5, "pz": -0.5},
    "sp3-4": {"s": 0.5, "px": -0.5, "py": -0.5, "pz": 0.5},
    "sp3d2-1": {"s": 1 / s6, "px": -1 / s2, "dz2": -1 / s12, "dx2-y2": 0.5},
    "sp3d2-2": {"s": 1 / s6, "px": 1 / s2, "dz2": -1 / s12, "dx2-y2": 0.5},
    "sp3d2-3": {"s": 1 / s6, "py": -1 / s2, "dz2": -1 / s12, "dx2-y2": -0.5},
    "sp3d2-4": {"s": 1 / s6, "py": 1 / s2, "dz2": -1 / s12, "dx2-y2": -0.5},
    "sp3d2-5": {"s": 1 / s6, "pz": -1 / s2, "dz2": 1 / s3},
    "sp3d2-6": {"s": 1 / s6, "pz": 1 / s2, "dz2": 1 / s3},
}


def orbital_function(name):
    if name in BASIC:
        return BASIC[name]
    coef = HYBRIDS[name]
    return lambda x, y, z: sum(c * BASIC[o](x, y, z) for o, c in coef.items())


def _quadrature(nu=8, nphi=16):
    u, wu = np.polynomial.legendre.leggauss(nu)
    phi = (np.arange(nphi) + 0.5) * 2 * PI / nphi
    U, P = np.meshgrid(u, phi, indexing="ij")
    W = (wu[:, None] * np.ones(nphi)[None, :]) * 2 * PI / nphi
    st = np.sqrt(1 - U ** 2)
    pts = np.stack([st * np.cos(P), st * np.sin(P), U], axis=-1).reshape(-1, 3)
    return pts, W.reshape(-1)


_PTS, _W = _quadrature()


def shell_values(shell, pts):
    """values of all orbitals of a shell (or ';'-separated list of shells) at points (n,3) -> (n, norb)"""
    cols = []
    for sh in shell.split(";"):
        for name in SHELL_ORBITALS[sh.strip()]:
            cols.append(orbital_function(name)(pts[:, 0], pts[:, 1], pts[:, 2]))
    return np.array(cols).T


def num_orbitals(shell):
    return sum(len(SHELL_ORBITALS[sh.strip()]) for sh in shell.split(";"))


def rotation_matrix_oracle(shell, R, basis1=None, basis2=None, cross=False):
    """D_ij = < phi_i^(b2) | O_R phi_j^(b1) >  (see module docstring).
    For ';'-separated lists every component is a separate representation space (the repository's semantics: direct sum),
    so the block-diagonal matrix of the components is returned; cross=True gives the full overlap matrix instead."""
    parts = [sh.strip() for sh in shell.split(";")]
    if len(parts) > 1 and not cross:
        blocks = [rotation_matrix_oracle(sh, R, basis1, basis2) for sh in parts]
        n = sum(len(b) for b in blocks)
        out = np.zeros((n, n))
        i = 0
        for b in blocks:
            out[i:i + len(b), i:i + len(b)] = b
            i += len(b)
        return out
    R = np.asarray(R, dtype=float)
    b1 = np.eye(3) if basis1 is None else np.asarray(basis1, dtype=float)
    b2 = np.eye(3) if basis2 is None else np.asarray(basis2, dtype=float)
    left = shell_values(shell, _PTS @ b2.T)                        # phi_i(b2 r)
    right = shell_values(shell, _PTS @ np.linalg.inv(R).T @ b1.T)  # phi_j(b1 R^-1 r)
    return np.einsum("n,ni,nj->ij", _W, left, right)


def span_invariant(shell, R, basis1=None, basis2=None, tol=1e-9):
    """True iff the rotated orbitals of site 1 lie in the span of the orbitals of site 2 (then D is orthogonal);
    for ';'-lists: iff this holds for every component separately"""
    D = rotation_matrix_oracle(shell, R, basis1, basis2)
    return bool(np.abs(D @ D.T - np.eye(len(D))).max() < tol)


def _selfcheck():
    for sh in FULL_SHELLS + HYBRID_SHELLS:
        V = shell_values(sh, _PTS)
        G = np.einsum("n,ni,nj->ij", _W, V, V)
        assert np.abs(G - np.eye(len(G))).max() < 1e-12, sh
    V = shell_values("s;p;d;f", _PTS)
    G = np.einsum("n,ni,nj->ij", _W, V, V)
    assert np.abs(G - np.eye(16)).max() < 1e-12


_selfcheck()
