"""G-w90 of DESIGN 3.1: synthetic Wannier90 data sets (EIG / MMN / AMN / b-vectors) made from a
random "ab-initio" tight-binding model, assembled into a ``WannierData`` through the public
constructors of the code under test (no files on disk).

Model
-----
NB orbitals sitting at the origin of the cell, H(k) = sum_R H(R) exp(2 pi i k.R) with random Hermitian
hoppings decaying on the scale of the lattice constant.  Since every orbital is at the origin the
cell-periodic parts obey u_{n,k+G} = u_{n,k} (coefficient vectors), therefore in the periodic gauge

    MMN[k][ib] = U(k)^dagger U(neighbour(k, ib))          (no extra phase for any G)
    AMN[k]     = U(k)^dagger (T + noise_k)                 T = NB x NW trial orbitals (k independent)
    EIG[k]     = eigenvalues of H(k), ascending

U(k) = eigenvector matrix in a *random gauge* (random phase per state, random unitary inside
exactly degenerate groups) - what a DFT code would deliver.  k-points: Gamma-centred mesh listed
in random order.  b-vectors/neighbours/G come from ``BKVectors.from_kpoints``.

Degeneracies (so that energy windows can cut multiplets): the NB orbitals are made of ``copies``
identical blocks H1(k) shifted rigidly by ``split`` (0 = exact degeneracy, 1e-6..9e-3 = inside the
1e-2 degeneracy threshold of ``select_window_degen``, larger = resolved), optionally plus an
independent block; a k-independent random unitary mixes all orbitals afterwards so the eigenvectors
are dense.

API
---
synthetic_bands(rng, mp_grid=None, NB=None, lattice=None, degen=None, split=None, copies=None,
                radius=None, shuffle_k=True, bandwidth=1.0)            -> W90Synth (no projections yet)
W90Synth.set_amn(rng, NW, kind=None, noise=0.05)                       -> self (adds AMN, sets NW)
W90Synth.wandata(with_chk=False, seedname=None)                        -> fresh WannierData
W90Synth.multiplets(ik, thresh)                                        -> list of index arrays (chains of gaps < thresh)
W90Synth.min_tie_distance(thresh)                                      -> min | gap - thresh | over all k
synthetic_w90(rng, mp_grid=None, NB=None, NW=None, **kw)               -> W90Synth with AMN set
                                                                         (``.wandata()`` gives the object)
real_w90(seedname)                                                     -> W90Synth from Wannier90 *text* files
                                                                         (.win .eig .mmn .amn parsed by the harness,
                                                                         no multiprocessing); U/H/basis are None,
                                                                         set_amn(rng, NW) picks NW columns of the file's AMN
Attributes of W90Synth: lattice, recip_lattice, mp_grid, kpt_red (NK,3), NK, NB, NW, E (NK,NB),
U (NK,NB,NB) [columns = states], bkvec (BKVectors), mmn (NK,NNB,NB,NB), amn (NK,NB,NW) or None,
trial (NB,NW) or None, degen (dict describing the degeneracy structure), H (callable k_red -> H(k)).
"""
import numpy as np
from . import env
from . import gen_systems

env.setup_path()

MP_GRIDS = [(2, 2, 2), (3, 3, 2), (3, 3, 3), (4, 2, 1), (2, 3, 4), (1, 1, 4), (3, 1, 2), (4, 4, 1), (2, 2, 3), (5, 2, 2)]
SPLITS_INSIDE = (1e-6, 1e-4, 1e-3, 4e-3, 9e-3)  # < 1e-2 : one multiplet for select_window_degen
SPLITS_RESOLVED = (1.3e-2, 3e-2, 0.1)  # > 1e-2 : separate levels


def random_unitary(rng, n):
    if n == 0:
        return np.zeros((0, 0), dtype=complex)
    q, r = np.linalg.qr(rng.normal(size=(n, n)) + 1j * rng.normal(size=(n, n)))
    d = np.diag(r)
    return q * (d / np.abs(d))[None, :]


class W90Synth:

    def __init__(self):
        self.amn = None
        self.trial = None
        self.NW = None

    # ------------------------------------------------------------------ projections
    def set_amn(self, rng, NW, kind=None, noise=0.05):
        """trial orbitals: NB x NW matrix T (k independent) + small k-dependent noise.
        kind: 'random' (complex gaussian), 'orbitals' (NW of the model orbitals + small admixture),
              'lowbands' (close to the NW lowest eigenvectors of the k-averaged Hamiltonian),
              'deficient' (two nearly parallel trial orbitals - badly conditioned projections)"""
        NB = self.NB
        assert 1 <= NW <= NB
        if getattr(self, "amn_full", None) is not None:
            # real data: a random subset of the projections of the file (all of them if NW = their number)
            nfull = self.amn_full.shape[2]
            assert NW <= nfull, f"the file has only {nfull} projections"
            cols = np.sort(rng.permutation(nfull)[:NW])
            self.amn = self.amn_full[:, :, cols].copy()
            self.trial = None
            self.NW = int(NW)
            self.amn_kind = f"file columns {cols.tolist()}"
            return self
        if kind is None:
            kind = ["random", "orbitals", "lowbands", "deficient"][int(rng.integers(4))]
        if kind == "deficient" and NW < 2:
            kind = "random"
        if kind == "random":
            T = rng.normal(size=(NB, NW)) + 1j * rng.normal(size=(NB, NW))
        elif kind == "orbitals":
            sel = rng.permutation(NB)[:NW]
            T = 0.15 * (rng.normal(size=(NB, NW)) + 1j * rng.normal(size=(NB, NW)))
            T[sel, np.arange(NW)] += 1.0
            T = self.basis @ T  # the model orbitals are the columns of `basis`
        elif kind == "lowbands":
            Hav = sum(self.H(k) for k in self.kpt_red) / self.NK
            _, v = np.linalg.eigh(Hav)
            T = v[:, :NW] @ random_unitary(rng, NW) + 0.1 * (rng.normal(size=(NB, NW)) + 1j * rng.normal(size=(NB, NW)))
        elif kind == "deficient":
            T = rng.normal(size=(NB, NW)) + 1j * rng.normal(size=(NB, NW))
            T[:, 1] = T[:, 0] + 1e-3 * T[:, 1]
        else:
            raise ValueError(kind)
        T = T / np.linalg.norm(T, axis=0)[None, :]
        amn = np.zeros((self.NK, NB, NW), dtype=complex)
        for ik in range(self.NK):
            Tk = T + noise * (rng.normal(size=(NB, NW)) + 1j * rng.normal(size=(NB, NW))) / np.sqrt(NB)
            amn[ik] = self.U[ik].conj().T @ Tk
        self.amn = amn
        self.trial = T
        self.NW = int(NW)
        self.amn_kind = kind
        return self

    # ------------------------------------------------------------------ assembling
    def wandata(self, with_chk=False, seedname=None, with_amn=True):
        """a fresh WannierData (independent copies of all arrays) holding bkvec, eig, mmn (+ amn, + bare chk).
        Without chk, `wannierise` creates the CheckPoint itself (as for a data set that was never wannierised)."""
        from wannierberri.w90files.wandata import WannierData
        from wannierberri.w90files.eig import EIG
        from wannierberri.w90files.amn import AMN
        from wannierberri.w90files.mmn import MMN
        from wannierberri.w90files.chk import CheckPoint
        wd = WannierData()
        wd.seedname = seedname if seedname is not None else "verif-synthetic"
        wd.formatted_list = []
        if with_chk:
            wd.set_file("chk", CheckPoint(real_lattice=self.lattice.copy(), num_wann=0, num_bands=self.NB,
                                          kpt_red=self.kpt_red.copy(), mp_grid=np.array(self.mp_grid)))
        wd.set_file("bkvec", self.make_bkvec())
        wd.set_file("eig", EIG(data=[e.copy() for e in self.E]))
        wd.set_file("mmn", MMN(data=[m.copy() for m in self.mmn]))
        if with_amn and self.amn is not None:
            wd.set_file("amn", AMN(data=[a.copy() for a in self.amn]))
        return wd

    def make_bkvec(self):
        from wannierberri.w90files.bkvectors import BKVectors
        return BKVectors.from_kpoints(recip_lattice=self.recip_lattice.copy(), mp_grid=np.array(self.mp_grid),
                                      kpoints_red=self.kpt_red.copy())

    # ------------------------------------------------------------------ helpers for oracles
    def multiplets(self, ik, thresh):
        """chains of consecutive bands with gaps < thresh (harness-side, independent of the repo)"""
        E = self.E[ik]
        groups, cur = [], [0]
        for i in range(1, len(E)):
            if E[i] - E[i - 1] < thresh:
                cur.append(i)
            else:
                groups.append(np.array(cur))
                cur = [i]
        groups.append(np.array(cur))
        return groups

    def min_tie_distance(self, thresh):
        gaps = np.diff(self.E, axis=1)
        if gaps.size == 0:
            return np.inf
        return float(np.min(np.abs(gaps - thresh)))


def synthetic_bands(rng, mp_grid=None, NB=None, lattice=None, degen=None, split=None, copies=None,
                    radius=None, shuffle_k=True, bandwidth=1.0):
    """the band-structure part of G-w90 (EIG, eigenvectors, MMN, b-vectors); see module docstring.
    degen: None (random choice) | 'none' | 'exact' | 'near' | 'resolved' | 'chain' | 'mixed'
      exact    : `copies` identical blocks (split = 0)
      near     : copies shifted by `split` < 1e-2 (inside the degeneracy threshold)
      resolved : copies shifted by `split` > 1e-2
      chain    : 3 copies, split 6e-3..9e-3 each -> a chain wider than the threshold
      mixed    : 2 near-degenerate copies + an independent block
    Raises RuntimeError if the b-vector search of the repo fails for the lattice (callers may skip)."""
    self = W90Synth()
    if mp_grid is None:
        mp_grid = MP_GRIDS[int(rng.integers(len(MP_GRIDS)))]
    mp_grid = tuple(int(x) for x in mp_grid)
    if NB is None:
        NB = int(rng.integers(2, 9))
    if lattice is None:
        if rng.random() < 0.5:
            lattice = gen_systems.random_lattice(rng)
        else:
            _, lattice = gen_systems.bravais_lattice(rng)
    lattice = np.array(lattice, dtype=float)
    if degen is None:
        degen = ["none", "exact", "near", "resolved", "chain", "mixed"][int(rng.integers(6))]
    if NB < 2:
        degen = "none"
    if degen == "chain" and NB < 3:
        degen = "near"
    if degen == "mixed" and NB < 3:
        degen = "near"

    # ---- block structure
    if degen == "none":
        ncopy, nblock, nextra, shift = 1, NB, 0, 0.0
    elif degen in ("exact", "near", "resolved"):
        ncopy = int(copies) if copies is not None else (2 if (NB < 3 or rng.random() < 0.7) else 3)
        ncopy = min(ncopy, NB)
        nblock = NB // ncopy
        nextra = NB - nblock * ncopy
        if degen == "exact":
            shift = 0.0
        elif degen == "near":
            shift = float(split) if split is not None else float(SPLITS_INSIDE[int(rng.integers(len(SPLITS_INSIDE)))])
        else:
            shift = float(split) if split is not None else float(SPLITS_RESOLVED[int(rng.integers(len(SPLITS_RESOLVED)))])
    elif degen == "chain":
        ncopy = 3
        nblock = NB // 3
        nextra = NB - 3 * nblock
        shift = float(split) if split is not None else float(rng.choice([6e-3, 7.5e-3, 9e-3]))
    elif degen == "mixed":
        ncopy = 2
        nblock = max(1, (NB - 1) // 2)
        nextra = NB - 2 * nblock
        shift = float(split) if split is not None else float(SPLITS_INSIDE[int(rng.integers(len(SPLITS_INSIDE)))])
    else:
        raise ValueError(degen)

    if radius is None:
        radius = rng.uniform(1.0, 1.8)
    iR = gen_systems.symmetric_R_set(rng, radius=radius)
    H1 = gen_systems.random_matrices(rng, iR, lattice, nblock, keys=("Ham",), bandwidth=bandwidth)["Ham"]
    if nextra > 0:
        H2 = gen_systems.random_matrices(rng, iR, lattice, nextra, keys=("Ham",), bandwidth=bandwidth)["Ham"]
    basis = random_unitary(rng, NB)  # columns = the model orbitals expressed in the working basis

    def Hk(k):
        ph = np.exp(2j * np.pi * (iR @ np.asarray(k, dtype=float)))
        h1 = np.einsum("r,rab->ab", ph, H1)
        h1 = 0.5 * (h1 + h1.conj().T)
        H = np.zeros((NB, NB), dtype=complex)
        for c in range(ncopy):
            sl = slice(c * nblock, (c + 1) * nblock)
            H[sl, sl] = h1 + c * shift * np.eye(nblock)
        if nextra > 0:
            h2 = np.einsum("r,rab->ab", ph, H2)
            H[ncopy * nblock:, ncopy * nblock:] = 0.5 * (h2 + h2.conj().T)
        H = basis @ H @ basis.conj().T
        return 0.5 * (H + H.conj().T)

    # ---- k mesh, Gamma centred, random order
    kgrid = np.array([(i, j, k) for i in range(mp_grid[0]) for j in range(mp_grid[1]) for k in range(mp_grid[2])], dtype=float)
    kpt_red = kgrid / np.array(mp_grid)[None, :]
    if shuffle_k:
        kpt_red = kpt_red[rng.permutation(len(kpt_red))]
    NK = len(kpt_red)

    E = np.zeros((NK, NB))
    U = np.zeros((NK, NB, NB), dtype=complex)
    for ik, k in enumerate(kpt_red):
        e, v = np.linalg.eigh(Hk(k))
        # random gauge: random unitary inside numerically exact degenerate groups, random phases
        start = 0
        for i in range(1, NB + 1):
            if i == NB or e[i] - e[i - 1] > 1e-11:
                n = i - start
                if n > 1:
                    v[:, start:i] = v[:, start:i] @ random_unitary(rng, n)
                start = i
        v = v * np.exp(2j * np.pi * rng.random(NB))[None, :]
        E[ik] = e
        U[ik] = v

    self.lattice = lattice
    self.recip_lattice = 2 * np.pi * np.linalg.inv(lattice).T
    self.mp_grid = mp_grid
    self.kpt_red = kpt_red
    self.NK = NK
    self.NB = int(NB)
    self.E = E
    self.U = U
    self.H = Hk
    self.basis = basis
    self.degen = dict(kind=degen, copies=ncopy, nblock=nblock, nextra=nextra, split=shift)
    self.bkvec = self.make_bkvec()
    NNB = self.bkvec.NNB
    mmn = np.zeros((NK, NNB, NB, NB), dtype=complex)
    for ik in range(NK):
        for ib in range(NNB):
            mmn[ik, ib] = U[ik].conj().T @ U[self.bkvec.neighbours[ik][ib]]
    self.mmn = mmn
    return self


def synthetic_w90(rng, mp_grid=None, NB=None, NW=None, amn_kind=None, amn_noise=0.05, **kw):
    """complete G-w90 data set; `.wandata()` of the result is the WannierData object"""
    s = synthetic_bands(rng, mp_grid=mp_grid, NB=NB, **kw)
    if NW is None:
        NW = int(rng.integers(1, s.NB + 1))
    s.set_amn(rng, NW, kind=amn_kind, noise=amn_noise)
    return s


def real_w90(seedname):
    """W90Synth from the Wannier90 text files <seedname>.win/.eig/.mmn/.amn, parsed here (plain numpy, no pools).
    The MMN blocks are put into the b-vector order of ``BKVectors.from_kpoints`` (the order `wandata()` uses)."""
    from wannierberri.w90files.win import WIN
    self = W90Synth()
    with env.quiet():
        win = WIN.from_w90_file(seedname=seedname)
    self.lattice = np.array(win.get_unit_cell_cart_ang(), dtype=float)
    self.recip_lattice = 2 * np.pi * np.linalg.inv(self.lattice).T
    self.kpt_red = np.array(win.get_kpoints(), dtype=float)[:, :3]
    self.mp_grid = tuple(int(x) for x in win.data["mp_grid"])
    self.NK = len(self.kpt_red)
    eig = np.loadtxt(seedname + ".eig", ndmin=2)
    NB = int(round(eig[:, 0].max()))
    assert eig.shape[0] == NB * self.NK
    E = np.zeros((self.NK, NB))
    E[eig[:, 1].astype(int) - 1, eig[:, 0].astype(int) - 1] = eig[:, 2]
    assert np.all(np.diff(E, axis=1) >= 0)
    self.NB = NB
    self.E = E
    self.U = None
    self.H = None
    self.basis = None
    self.degen = dict(kind="real:" + seedname.split("/")[-1], copies=0, nblock=0, nextra=0, split=0.0)
    with open(seedname + ".amn") as f:
        f.readline()
        nb, nk, nw = (int(x) for x in f.readline().split())
        a = np.loadtxt(f, ndmin=2)
    assert (nb, nk) == (NB, self.NK)
    amn = np.zeros((nk, nb, nw), dtype=complex)
    amn[a[:, 2].astype(int) - 1, a[:, 0].astype(int) - 1, a[:, 1].astype(int) - 1] = a[:, 3] + 1j * a[:, 4]
    self.amn_full = amn
    self.bkvec = self.make_bkvec()
    NNB = self.bkvec.NNB
    with open(seedname + ".mmn") as f:
        f.readline()
        nb, nk, nnb = (int(x) for x in f.readline().split())
        assert (nb, nk, nnb) == (NB, self.NK, NNB), f"mmn header {(nb, nk, nnb)} vs {(NB, self.NK, NNB)}"
        blocks = {}
        for _ in range(nk * nnb):
            ik, ik2, g1, g2, g3 = (int(x) for x in f.readline().split())
            d = np.array([[float(x) for x in f.readline().split()] for _ in range(nb * nb)])
            blocks[(ik - 1, ik2 - 1, g1, g2, g3)] = (d[:, 0] + 1j * d[:, 1]).reshape(nb, nb).T  # file: n outer, m inner
    mmn = np.zeros((self.NK, NNB, NB, NB), dtype=complex)
    for ik in range(self.NK):
        for ib in range(NNB):
            key = (ik, int(self.bkvec.neighbours[ik][ib])) + tuple(int(x) for x in self.bkvec.G[ik][ib])
            mmn[ik, ib] = blocks[key]
    self.mmn = mmn
    return self
