"""G-symTB (DESIGN 3.1): tight-binding models that are symmetric *by construction* under the full (magnetic) space group of a
crystal structure, built without the repository's symmetriser:

  * one s-like orbital per atom (optionally spin-doubled, interlaced ordering up,down);
  * hoppings are a smooth random function of the bond length and the pair of atom species only;
  * on-site energies per species;
  * optional spin-orbit coupling  i*lambda(|d|) * sigma . (E_mid x d_ij)  where E_mid is a 'crystal field' vector at the bond
    midpoint computed from the surrounding atoms (a polar vector field with the full symmetry of the structure), so the term is a
    time-reversal-even scalar;
  * optional Zeeman terms  B_species * m_i . sigma  following the magnetic moments of the structure.

The point group is always obtained from the code's own entry point (set_pointgroup_from_structure)."""
import numpy as np

PAULI = np.array([[[0, 1], [1, 0]], [[0, -1j], [1j, 0]], [[1, 0], [0, -1]]], dtype=complex)


def build(rng, struct, spinful=False, soc=True, zeeman=True, cutoff_factor=1.45, perturb=0.0, rmax=2):
    """returns System_R and an info dict.  perturb>0 adds a random non-symmetric Hermitian part (the 'generic twin')"""
    from .gen_systems import make_system
    L = np.array(struct["lattice"], dtype=float)
    pos = np.array(struct["positions"], dtype=float) % 1.0
    names = list(struct["atom_names"])
    species = sorted(set(names))
    sp = np.array([species.index(n) for n in names])
    nat = len(pos)
    mag = None if struct.get("magmoms") is None else np.array(struct["magmoms"], dtype=float)
    if mag is not None and not spinful:
        spinful = True
    nspin = 2 if spinful else 1
    nw = nat * nspin
    cart = pos @ L
    # nearest-neighbour distance from a first, small search
    R0 = np.array([(i, j, k) for i in range(-2, 3) for j in range(-2, 3) for k in range(-2, 3)])
    d0 = np.linalg.norm((cart[None, None, :, :] + (R0 @ L)[:, None, None, :]) - cart[None, :, None, :], axis=3)
    nn = d0[d0 > 1e-6].min()
    cut0 = max(cutoff_factor * nn, 1.02 * np.linalg.norm(L, axis=1).max()) * 1.1
    # the index box must contain *every* bond within the cutoff (plus the field radius), otherwise the truncation itself breaks the
    # symmetry: |R_i| <= (cutoff + cell diameter) * |i-th column of inv(L)|
    reach = max(cut0, 2.2 * nn) + np.linalg.norm(L, axis=1).sum()
    rbox = np.ceil(reach * np.linalg.norm(np.linalg.inv(L), axis=0)).astype(int) + 1
    rbox = np.maximum(rbox, rmax)
    Rs = np.array([(i, j, k) for i in range(-rbox[0], rbox[0] + 1) for j in range(-rbox[1], rbox[1] + 1) for k in range(-rbox[2], rbox[2] + 1)])
    # all bonds i(0) -> j(R)
    d = (cart[None, None, :, :] + (Rs @ L)[:, None, None, :]) - cart[None, :, None, :]          # (nR, i, j, 3)
    length = np.linalg.norm(d, axis=3)
    # at least the bonds to the neighbouring cells along every lattice vector (otherwise the bands may be flat)
    cutoff = max(cutoff_factor * nn, 1.02 * np.linalg.norm(L, axis=1).max())
    # keep the cutoff away from a shell radius (otherwise rounding decides which bonds exist)
    shells = np.unique(np.round(length[length > 1e-6], 6))
    while np.any(np.abs(shells - cutoff) < 1e-3 * nn):
        cutoff *= 1.013
    nsp = len(species)
    amp = rng.normal(size=(nsp, nsp))
    amp = 0.5 * (amp + amp.T)
    decay = rng.uniform(0.5, 1.0) * nn
    curv = rng.normal(size=(nsp, nsp)) * 0.3
    curv = 0.5 * (curv + curv.T)
    eps = rng.normal(size=nsp)
    lam = rng.normal(size=(nsp, nsp)) * 0.25
    lam = 0.5 * (lam + lam.T)
    charge = rng.uniform(0.5, 1.5, size=nsp) * rng.choice([-1, 1], size=nsp)
    bz = rng.uniform(0.3, 0.8, size=nsp)

    def tfun(l, a, b):
        return (amp[a, b] + curv[a, b] * (l / nn - 1.0)) * np.exp(-(l - nn) / decay)

    def field(point):
        dd = point[None, None, :] - (cart[None, :, :] + (Rs @ L)[:, None, :])      # from every atom image to the point
        r = np.linalg.norm(dd, axis=2)
        rc = 2.2 * nn
        m = (r > 1e-6) & (r < rc)
        # compact support, smooth at the cut-off: an atom sitting (within rounding) on the cut-off sphere contributes nothing either way
        w = np.where(m, charge[sp][None, :] * (1.0 - (np.minimum(r, rc) / rc) ** 2) ** 3 / np.where(m, r, 1.0), 0.0)
        return np.einsum("ra,rac->c", w, dd)

    ham = {}
    nsoc = 0
    for iR, R in enumerate(Rs):
        for i in range(nat):
            for j in range(nat):
                l = length[iR, i, j]
                if l < 1e-6 or l > cutoff:
                    continue
                block = tfun(l, sp[i], sp[j]) * np.eye(nspin, dtype=complex)
                if spinful and soc:
                    mid = cart[i] + 0.5 * d[iR, i, j]
                    v = np.cross(field(mid), d[iR, i, j])
                    if np.linalg.norm(v) > 1e-9:
                        block = block + 1j * lam[sp[i], sp[j]] * np.exp(-(l - nn) / decay) * np.einsum("c,cab->ab", v, PAULI)
                        nsoc += 1
                H = ham.setdefault(tuple(R), np.zeros((nw, nw), dtype=complex))
                H[i * nspin:(i + 1) * nspin, j * nspin:(j + 1) * nspin] += block
    H0 = ham.setdefault((0, 0, 0), np.zeros((nw, nw), dtype=complex))
    for i in range(nat):
        H0[i * nspin:(i + 1) * nspin, i * nspin:(i + 1) * nspin] += eps[sp[i]] * np.eye(nspin)
        if spinful and zeeman and mag is not None and np.linalg.norm(mag[i]) > 1e-9:
            H0[i * nspin:(i + 1) * nspin, i * nspin:(i + 1) * nspin] += bz[sp[i]] * np.einsum("c,cab->ab", mag[i], PAULI)
    keys = sorted(ham)
    for R in list(keys):
        if tuple(-x for x in R) not in ham:
            ham[tuple(-x for x in R)] = np.zeros((nw, nw), dtype=complex)
    keys = sorted(ham)
    iRvec = np.array(keys)
    Ham = np.array([ham[k] for k in keys])
    # Hermiticity is guaranteed by construction; enforce it to rounding
    index = {k: n for n, k in enumerate(keys)}
    Hc = np.array([Ham[index[tuple(-x for x in k)]].conj().T for k in keys])
    assert np.abs(Ham - Hc).max() < 1e-10, "harness: symmetric TB model is not Hermitian"
    Ham = 0.5 * (Ham + Hc)
    if perturb > 0:
        P = (rng.normal(size=Ham.shape) + 1j * rng.normal(size=Ham.shape)) * perturb * np.abs(Ham).max()
        Pc = np.array([P[index[tuple(-x for x in k)]].conj().T for k in keys])
        Ham = Ham + 0.5 * (P + Pc)
    cred = np.repeat(pos, nspin, axis=0)
    system = make_system(L, iRvec, {"Ham": Ham}, cred, spinor=bool(spinful), force_internal_terms_only=True)
    if spinful:
        system.set_spin_pairs([(2 * i, 2 * i + 1) for i in range(nat)])
    system.set_structure(pos, names, magnetic_moments=None if mag is None else mag)
    system.set_pointgroup_from_structure()
    info = dict(structure=struct.get("name", "?"), natoms=nat, spinful=bool(spinful), soc=bool(spinful and soc), soc_bonds=nsoc,
                magnetic=mag is not None, num_wann=nw, nR=len(iRvec), group_order=system.pointgroup.size, cutoff=float(cutoff / nn))
    return system, info
