"""In-situ monitors for everything that goes through wannierberri.run() (DESIGN 3.2).

`RunMonitor` patches, for the duration of a `with` block, the module-level names that the
repository looks up at call time:

  run_grid.process                  -> snapshots of the live K list before/after every iteration
  run_grid.exclude_equiv_points     -> weight conservation of the global merge of new points
  Kpoint.exclude_equiv_points       -> same for the merge inside KpointBZparallel.divide
  KpointBZparallel.divide / KpointBZtetra.divide  -> conservation, parent dead, children tile the parent
  KpointBZ.set_result               -> exactly-once (M-once)
  KpointBZ.dump_result / clear_result -> event log
  ResultDict.savedata               -> running result captured after every iteration (M-sum)

Nothing in /repo is edited.  Every wrapper counts its calls in `self.counters`; violations are
collected in `self.violations` as (mechanism, message, witness) and also raised at the end of the
block by `raise_if_violated()` if the caller wants that.
"""
import contextlib
import hashlib

import numpy as np


def kid(K):
    """stable identity of a K-point object within one run (objects are never copied by run())"""
    return id(K)


def kdesc(K):
    d = dict(K=np.round(np.asarray(K.K, dtype=float), 9).tolist(), factor=float(K.factor), level=int(K.refinement_level))
    if hasattr(K, "dK"):
        d["dK"] = np.round(np.asarray(K.dK, dtype=float), 9).tolist()
    return d


class RunMonitor:
    def __init__(self, factor_tol=1e-12, check_children_tile=True):
        self.counters = {}
        self.violations = []
        self.events = []          # (iteration, kind, payload)
        self.iteration = -1
        self.before_process = []  # list of callbacks(K_list, iteration)
        self.after_process = []   # list of callbacks(K_list, iteration, count, result_sum)
        self.on_savedata = []     # callbacks(resultdict, i_iter)
        self.set_result_calls = {}
        self.klists = []
        self.factor_tol = factor_tol
        self.check_children_tile = check_children_tile
        self._patches = []
        self.keep_alive = []      # keep references so that id() stays unique during the run
        self.equiv_oracle = None  # optional callback(K1, K2) -> bool : independent test of symmetry equivalence

    # ------------------------------------------------------------------ helpers
    def count(self, name, n=1):
        self.counters[name] = self.counters.get(name, 0) + n

    def violation(self, mechanism, message, witness=None):
        self.violations.append((mechanism, message, witness))

    def _patch(self, obj, name, new):
        old = getattr(obj, name)
        setattr(obj, name, new)
        self._patches.append((obj, name, old))
        return old

    # ------------------------------------------------------------------ context manager
    def __enter__(self):
        import wannierberri.run_grid as run_grid
        import wannierberri.grid.Kpoint as Kpoint_mod
        import wannierberri.grid.Kpoint_tetra as Ktetra_mod
        from wannierberri.result import ResultDict
        mon = self

        # ---- process -----------------------------------------------------------------
        orig_process = run_grid.process

        def process(*args, **kwargs):
            K_list = kwargs.get("K_list", args[1] if len(args) > 1 else None)
            mon.iteration += 1
            mon.count("process_calls")
            mon.keep_alive.extend(K_list)
            mon._check_klist(K_list, "before_process")
            for cb in mon.before_process:
                cb(K_list, mon.iteration)
            out = orig_process(*args, **kwargs)
            # every K-point must now have been evaluated exactly once in the whole history
            for K in K_list:
                n = mon.set_result_calls.get(kid(K), 0)
                if not K.was_evaluated_flag:
                    mon.violation("process:K-point_left_unevaluated", f"{kdesc(K)}", kdesc(K))
            for cb in mon.after_process:
                cb(K_list, mon.iteration, out[0], out[1])
            return out

        self._patch(run_grid, "process", process)

        # ---- set_result / dump / clear ---------------------------------------------------
        orig_set_result = Kpoint_mod.KpointBZ.set_result

        def set_result(self_, res):
            k = kid(self_)
            mon.keep_alive.append(self_)
            n = mon.set_result_calls.get(k, 0) + 1
            mon.set_result_calls[k] = n
            mon.count("set_result_calls")
            mon.events.append((mon.iteration, "set_result", kdesc(self_)))
            if n > 1:
                mon.violation("set_result_called_twice_for_one_K-point", f"{n} times: {kdesc(self_)}", kdesc(self_))
            if getattr(self_, "res_dumped_flag", False):
                mon.violation("set_result_after_dump", f"{kdesc(self_)}", kdesc(self_))
            return orig_set_result(self_, res)

        self._patch(Kpoint_mod.KpointBZ, "set_result", set_result)

        orig_dump = Kpoint_mod.KpointBZ.dump_result

        def dump_result(self_):
            mon.count("dump_result_calls")
            mon.events.append((mon.iteration, "dump", kdesc(self_)))
            return orig_dump(self_)

        self._patch(Kpoint_mod.KpointBZ, "dump_result", dump_result)

        orig_clear = Kpoint_mod.KpointBZ.clear_result

        def clear_result(self_):
            mon.count("clear_result_calls")
            mon.events.append((mon.iteration, "clear", kdesc(self_)))
            return orig_clear(self_)

        self._patch(Kpoint_mod.KpointBZ, "clear_result", clear_result)

        # ---- absorb (used by absorbing a never-evaluated point into an evaluated one only) ----
        orig_absorb = Kpoint_mod.KpointBZparallel.absorb

        def absorb(self_, other):
            if other is None:
                return orig_absorb(self_, other)
            before = float(self_.factor) + float(other.factor)
            if mon.equiv_oracle is not None:
                mon.count("merge_equivalence_checked")
                if not mon.equiv_oracle(self_, other):
                    mon.violation("merged_K-points_are_not_symmetry_equivalent", f"{kdesc(self_)} absorbed {kdesc(other)}",
                                  dict(K=kdesc(self_), other=kdesc(other)))
            out = orig_absorb(self_, other)
            mon.count("absorb_calls")
            if abs(float(self_.factor) - before) > mon.factor_tol:
                mon.violation("absorb_lost_weight", f"{before} -> {self_.factor}", dict(K=kdesc(self_), other=kdesc(other)))
            if other.was_evaluated_flag and not self_.was_evaluated_flag:
                mon.violation("absorb_lost_evaluated_result", "", dict(K=kdesc(self_), other=kdesc(other)))
            return out

        self._patch(Kpoint_mod.KpointBZparallel, "absorb", absorb)

        # ---- exclude_equiv_points (two bindings) ---------------------------------------------
        def make_exclude(orig, where):
            def exclude_equiv_points(K_list, new_points=None):
                before = sum(float(K.factor) for K in K_list)
                n_before = len(K_list)
                n_eval_before = sum(1 for K in K_list if K.was_evaluated_flag)
                ids_eval = {kid(K) for K in K_list if K.was_evaluated_flag}
                mon.keep_alive.extend(K_list)
                out = orig(K_list, new_points=new_points)
                after = sum(float(K.factor) for K in K_list)
                mon.count(f"exclude_equiv_points_calls[{where}]")
                mon.count(f"points_merged[{where}]", n_before - len(K_list))
                if abs(before - after) > 1e-11 * max(1.0, abs(before)):
                    mon.violation("exclude_equiv_points_changed_total_weight", f"{where}: {before} -> {after}",
                                  dict(where=where, before=before, after=after))
                ids_after = {kid(K) for K in K_list}
                if not ids_eval.issubset(ids_after):
                    mon.violation("exclude_equiv_points_removed_an_evaluated_point", where, dict(where=where))
                return out
            return exclude_equiv_points

        self._patch(run_grid, "exclude_equiv_points", make_exclude(run_grid.exclude_equiv_points, "run"))
        self._patch(Kpoint_mod, "exclude_equiv_points", make_exclude(Kpoint_mod.exclude_equiv_points, "divide"))

        # ---- divide (parallelepiped) ---------------------------------------------------------
        orig_divide = Kpoint_mod.KpointBZparallel.divide

        def divide(self_, ndiv, periodic, use_symmetry=True):
            parent_factor = float(self_.factor)
            parent = kdesc(self_)
            children = orig_divide(self_, ndiv, periodic, use_symmetry=use_symmetry)
            mon.count("divide_calls")
            mon.events.append((mon.iteration, "divide", parent))
            tot = sum(float(c.factor) for c in children)
            if abs(tot - parent_factor) > 1e-12 * max(1.0, abs(parent_factor)):
                mon.violation("divide_does_not_conserve_weight", f"parent {parent_factor} children {tot}", parent)
            if float(self_.factor) != 0.0:
                mon.violation("divided_K-point_stays_alive", f"factor {self_.factor}", parent)
            nd = np.array(ndiv)
            for c in children:
                if c.refinement_level != self_.refinement_level + 1:
                    mon.violation("child_has_wrong_refinement_level", "", parent)
                if not np.allclose(np.asarray(c.dK) * nd, np.asarray(self_.dK), rtol=1e-12, atol=0):
                    mon.violation("child_cell_size_wrong", f"{c.dK} * {nd} != {self_.dK}", parent)
                # child centre inside the parent cell on the sub-grid
                rel = (np.asarray(c.K) - np.asarray(self_.K)) / np.asarray(c.dK) + (nd - 1) / 2.0
                if np.abs(rel - np.round(rel)).max() > 1e-9 or np.any(np.round(rel) < 0) or np.any(np.round(rel) > nd - 1):
                    mon.violation("child_centre_not_on_the_sub-grid_of_the_parent_cell", f"rel={rel}", parent)
            if (not use_symmetry) or self_.pointgroup is None:
                if len(children) != int(np.prod(nd)):
                    mon.violation("children_do_not_tile_the_parent", f"{len(children)} children for ndiv {nd}", parent)
            return children

        self._patch(Kpoint_mod.KpointBZparallel, "divide", divide)

        # ---- divide (tetrahedra) ---------------------------------------------------------------
        orig_divide_t = Ktetra_mod.KpointBZtetra.divide

        def divide_t(self_, *args, **kwargs):
            parent_factor = float(self_.factor)
            vol_parent = _tetra_volume(np.asarray(self_.vertices))
            parent = dict(K=np.asarray(self_.K).tolist(), vertices=np.asarray(self_.vertices).tolist(), factor=parent_factor)
            children = orig_divide_t(self_, *args, **kwargs)
            mon.count("divide_tetra_calls")
            tot = sum(float(c.factor) for c in children)
            vols = [_tetra_volume(np.asarray(c.vertices)) for c in children]
            if abs(tot - parent_factor) > 1e-12 * max(1.0, abs(parent_factor)):
                mon.violation("tetra_divide_does_not_conserve_weight", f"{parent_factor} -> {tot}", parent)
            if abs(sum(vols) - vol_parent) > 1e-12 * vol_parent:
                mon.violation("tetra_divide_does_not_conserve_volume", f"{vol_parent} -> {sum(vols)}", parent)
            for c, v in zip(children, vols):
                if parent_factor > 0 and abs(float(c.factor) / parent_factor - v / vol_parent) > 1e-11:
                    mon.violation("tetra_child_weight_not_proportional_to_volume", "", parent)
            if float(self_.factor) != 0.0:
                mon.violation("divided_tetrahedron_stays_alive", "", parent)
            # children must lie inside the parent: every child vertex is a convex combination of the parent's
            A = np.vstack([(np.asarray(self_.vertices) + np.asarray(self_.K)).T, np.ones(4)])
            for c in children:
                for v in np.asarray(c.vertices) + np.asarray(c.K):
                    lam = np.linalg.solve(A, np.append(v, 1.0))
                    if lam.min() < -1e-9:
                        mon.violation("tetra_child_vertex_outside_parent", f"{lam}", parent)
            return children

        self._patch(Ktetra_mod.KpointBZtetra, "divide", divide_t)

        # ---- savedata -------------------------------------------------------------------------------
        orig_savedata = ResultDict.savedata

        def savedata(self_, prefix, suffix, i_iter):
            mon.count("savedata_calls")
            for cb in mon.on_savedata:
                cb(self_, i_iter)
            return orig_savedata(self_, prefix, suffix, i_iter)

        self._patch(ResultDict, "savedata", savedata)
        return self

    def __exit__(self, *exc):
        for obj, name, old in reversed(self._patches):
            setattr(obj, name, old)
        self._patches = []
        return False

    # ------------------------------------------------------------------ invariants of a K list
    def _check_klist(self, K_list, where):
        self.count("klist_checks")
        fac = np.array([float(K.factor) for K in K_list])
        if np.any(fac < -1e-14):
            self.violation("negative_K-point_weight", f"{where}: min {fac.min()}", dict(where=where))
        s = fac.sum()
        if abs(s - 1.0) > 1e-10 and not getattr(self, "partial_bz", False):
            self.violation("K-point_weights_do_not_sum_to_one", f"{where}: sum = {s!r} (iteration {self.iteration})",
                           dict(where=where, sum=s, iteration=self.iteration, n=len(K_list)))

    def flush_to(self, ctx, witness=None):
        """hand everything observed to the harness context"""
        for k, v in self.counters.items():
            ctx.count("mon:" + k, v)
        ctx.ev(self.counters.get("klist_checks", 0) + self.counters.get("divide_calls", 0)
               + self.counters.get("set_result_calls", 0) + self.counters.get("divide_tetra_calls", 0))
        for mech, msg, w in self.violations:
            ctx.violation(mech, msg, dict(monitor_witness=w, case=witness))


def _tetra_volume(v):
    return abs(np.linalg.det(v[1:] - v[0][None, :])) / 6.0


def pseudo_random_unit(*items):
    """deterministic pseudo-random number in (0,1] from arbitrary (rounded) data - the 'adversary'
    that decides which K-points look important"""
    h = hashlib.sha256(repr(items).encode()).digest()
    return (int.from_bytes(h[:8], "big") + 1) / 2.0 ** 64


def make_stub_calculator(salt=0, nE=3, rank=0, level_boost=1.0):
    """a calculator that evaluates no physics: its result (and hence the refinement criterion) is a
    pseudo-random function of the K-point coordinates, so the refinement history is adversarial but
    reproducible"""
    from wannierberri.calculators.calculator import Calculator
    from wannierberri.result import EnergyResult
    from wannierberri.symmetry.point_symmetry import transform_ident

    class Stub(Calculator):
        """stub calculator of the verification harness"""

        def __init__(self):
            super().__init__(save_mode="none")
            self.Efermi = np.linspace(0, 1, nE)

        def __call__(self, data_K):
            K = data_K.Kpoint
            key = tuple(np.round(np.asarray(K.K, dtype=float) % 1, 7).tolist())
            if hasattr(K, "vertices"):
                key = key + tuple(np.round(np.asarray(K.vertices), 7).reshape(-1).tolist())
            vals = np.array([pseudo_random_unit(salt, key, i) for i in range(nE)])
            if level_boost != 1.0:  # deeper cells look more important: the adversary keeps refining the same region
                vals = (0.5 + vals) * level_boost ** max(0, int(getattr(K, 'refinement_level', 0)))
            data = vals.reshape((nE,) + (1,) * rank) * np.ones((nE,) + (3,) * rank)
            return EnergyResult(self.Efermi, data, transformTR=transform_ident, transformInv=transform_ident, rank=rank,
                                save_mode="none")

    return Stub()


@contextlib.contextmanager
def chdir(path):
    import os
    old = os.getcwd()
    os.chdir(path)
    try:
        yield
    finally:
        os.chdir(old)


def stale_caches(obj, depth=1, _prefix=""):
    """Invariant at a quiescent point: every value held by a functools.cached_property of `obj` (and of its attribute objects, to the given
    depth) equals what the property's function returns now.  Returns [(name, cached, fresh)] for the ones that differ - a cache that a mutating
    method forgot to invalidate.  Observation only: the cached values are left as they were."""
    from functools import cached_property
    out = []
    seen = set()
    for cls in type(obj).__mro__:
        for name, attr in vars(cls).items():
            if isinstance(attr, cached_property) and name not in seen and name in getattr(obj, "__dict__", {}):
                seen.add(name)
                old = obj.__dict__.pop(name)   # removed while recomputing: an overriding property may call super().<same name>
                try:
                    fresh = attr.func(obj)
                except Exception as e:  # noqa
                    out.append((_prefix + name, old, f"recomputation raised {type(e).__name__}: {e}"))
                    continue
                finally:
                    obj.__dict__[name] = old
                same = True
                try:
                    if isinstance(old, np.ndarray) or isinstance(fresh, np.ndarray):
                        a, b = np.asarray(old), np.asarray(fresh)
                        same = a.shape == b.shape and bool(np.allclose(a, b, rtol=1e-12, atol=1e-12))
                    elif isinstance(old, (list, tuple, dict, str, int, float, bool, type(None))):
                        same = old == fresh
                    else:
                        same = True   # opaque objects (plans, remappers) are not compared
                except Exception:  # noqa
                    same = True
                if not same:
                    out.append((_prefix + name, old, fresh))
    if depth > 0:
        for k, v in list(getattr(obj, "__dict__", {}).items()):
            if hasattr(v, "__dict__") and type(v).__module__.startswith("wannierberri"):
                out += stale_caches(v, depth - 1, _prefix + k + ".")
    return out


def warm_caches(obj, depth=1):
    """touch every functools.cached_property of obj (and of its wannierberri attribute objects): the state of an object that has been used"""
    from functools import cached_property
    for cls in type(obj).__mro__:
        for name, attr in vars(cls).items():
            if isinstance(attr, cached_property):
                try:
                    getattr(obj, name)
                except Exception:  # noqa
                    pass
    if depth > 0:
        for v in list(getattr(obj, "__dict__", {}).values()):
            if hasattr(v, "__dict__") and type(v).__module__.startswith("wannierberri"):
                warm_caches(v, depth - 1)


def assert_no_stale_caches(ctx, obj, after, witness=None):
    """the invariant above as a check step (counts what it looked at)"""
    ctx.count("cache_invariant_checked")
    for name, old, fresh in stale_caches(obj):
        ctx.violation(f"stale_cached_property_after_{after}:{name}", f"cached {np.shape(old)} {str(old)[:80]} != recomputed {np.shape(fresh) if not isinstance(fresh, str) else ''} "
                      f"{str(fresh)[:80]}", witness)
