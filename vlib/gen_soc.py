"""G-soc of DESIGN 3.1: `SystemSOC` objects built from two G-herm systems, plus the harness-side
reference Hamiltonian / spin operator of such a system.

Everything the library is given goes through its public entry points
(`SystemSOC(...)`, `set_R_mat`, `set_soc_axis`, `set_soc_R`); the reference quantities
(`pauli_rotated_ref`, `soc_ham_R_ref`, `soc_H_ref`, `soc_SS_ref`, `soc_bands_ref`) are
written from the documented formulas and never read `Ham_SOC` / `SS` of the system under test:

    H(k)[2m+s, 2n+t] = delta_st H^s_mn(k) + alpha_soc * sum_c dV^{st}_mn,c(k) * P[s,t,c]
    S_c(k)[2m+s, 2n+t] = delta_st delta_mn P[s,s,c]  +  (s!=t) O^{st}_mn(k) P[s,t,c]

with P[s,t,c] = <n,s| sigma_c |n,t>, |n,+-> the spinors quantised along n(theta,phi),
H^s(k) = sum_R e^{2 pi i k.R} Ham^s(R) (each spin channel on its *own* R set),
dV^{10}(R) = dV^{01}(-R)^dagger, O^{10}(R) = O^{01}(-R)^dagger; for nspin=1 all four blocks use dV^{00}
and O^{st} = identity at R=0.
"""
import types
import numpy as np
from . import env
from . import gen_systems

env.setup_path()

RELATIONS = ("equal", "permuted", "nested", "overlapping")

SIGMA = np.array([[[0, 1], [1, 0]], [[0, -1j], [1j, 0]], [[1, 0], [0, -1]]], dtype=complex)  # [c, a, b]


# ------------------------------------------------------------------------------------------
#   reference spin algebra
# ------------------------------------------------------------------------------------------
def axis_vector(theta, phi):
    return np.array([np.sin(theta) * np.cos(phi), np.sin(theta) * np.sin(phi), np.cos(theta)])


def spinors_ref(theta, phi):
    """columns: |n,+>, |n,-> for the quantisation axis n(theta,phi) (radians), in the gauge
    exp(-i phi sigma_z/2) exp(-i theta sigma_y/2) of the library's docstring"""
    up = np.array([np.cos(theta / 2) * np.exp(-0.5j * phi), np.sin(theta / 2) * np.exp(0.5j * phi)])
    dn = np.array([-np.sin(theta / 2) * np.exp(-0.5j * phi), np.cos(theta / 2) * np.exp(0.5j * phi)])
    return np.array([up, dn]).T


def pauli_rotated_ref(theta, phi):
    """P[s,t,c] = <n,s| sigma_c |n,t>  (radians)"""
    C = spinors_ref(theta, phi)
    P = np.zeros((2, 2, 3), dtype=complex)
    for c in range(3):
        P[:, :, c] = C.conj().T @ SIGMA[c] @ C
    return P


# ------------------------------------------------------------------------------------------
#   up / down systems with a prescribed relation between their R sets
# ------------------------------------------------------------------------------------------
def _symmetric_subset(rng, iRvec, frac):
    """-R symmetric subset of a -R symmetric set (always contains R=0)"""
    keep = {(0, 0, 0)}
    for R in iRvec.tolist():
        t = tuple(R)
        if t in keep or tuple(-x for x in t) in keep:
            continue
        if rng.random() < frac:
            keep.add(t)
            keep.add(tuple(-x for x in t))
    out = np.array(sorted(keep))
    return out[rng.permutation(len(out))]


def rset_pair(rng, relation, radius=None, periodic=(True, True, True)):
    """two -R symmetric R sets with the given relation (equal / permuted / nested / overlapping)"""
    assert relation in RELATIONS, relation
    if radius is None:
        radius = rng.uniform(1.0, 2.0)
    for attempt in range(100):
        # a set that is too small for the requested relation is enlarged on retry
        base = gen_systems.symmetric_R_set(rng, radius=radius + 0.15 * (attempt // 3), periodic=periodic)
        if relation == "equal":
            return base, base.copy()
        if relation == "permuted":
            if len(base) < 3:
                continue
            while True:
                p = rng.permutation(len(base))
                if not np.array_equal(p, np.arange(len(base))):
                    return base, base[p]
        if relation == "nested":
            sub = _symmetric_subset(rng, base, rng.uniform(0.2, 0.7))
            if len(sub) == len(base):
                continue
            return (base, sub) if rng.random() < 0.5 else (sub, base)
        if relation == "overlapping":
            a = _symmetric_subset(rng, base, 0.6)
            b = _symmetric_subset(rng, base, 0.6)
            sa = set(map(tuple, a.tolist()))
            sb = set(map(tuple, b.tolist()))
            if (sa - sb) and (sb - sa):
                return a, b
    raise RuntimeError(f"could not build an R-set pair with relation {relation}")


def rset_relation(iR_a, iR_b):
    """classify the relation of two R sets (used by the checks to key non-trivial cases)"""
    sa = set(map(tuple, np.asarray(iR_a).tolist()))
    sb = set(map(tuple, np.asarray(iR_b).tolist()))
    if sa == sb:
        return "equal" if np.array_equal(iR_a, iR_b) else "permuted"
    if sa < sb or sb < sa:
        return "nested"
    return "overlapping"


def updown_systems(rng, num_wann=None, relation="equal", lattice=None, radius=None, keys=("Ham",),
                   centers="random", same_centers=True, periodic=(True, True, True), exchange=None):
    """two G-herm `System_R` (same lattice, same num_wann, independent random matrices, the down
    channel shifted by an exchange splitting) whose R sets have the given relation"""
    if num_wann is None:
        num_wann = int(rng.integers(1, 5))
    if lattice is None:
        lattice = gen_systems.random_lattice(rng)
    iR_up, iR_dn = rset_pair(rng, relation, radius=radius, periodic=periodic)
    c_up = gen_systems.random_centers(rng, num_wann, centers)
    c_dn = c_up.copy() if same_centers else c_up + rng.uniform(-0.08, 0.08, c_up.shape)
    m_up = gen_systems.random_matrices(rng, iR_up, lattice, num_wann, keys=keys)
    m_dn = gen_systems.random_matrices(rng, iR_dn, lattice, num_wann, keys=keys)
    if exchange is None:
        exchange = rng.uniform(-1.0, 1.0)
    i0 = iR_dn.tolist().index([0, 0, 0])
    m_dn["Ham"][i0][np.arange(num_wann), np.arange(num_wann)] += exchange
    s_up = gen_systems.make_system(lattice, iR_up, m_up, c_up, periodic=periodic, name="up")
    s_dn = gen_systems.make_system(lattice, iR_dn, m_dn, c_dn, periodic=periodic, name="down")
    return s_up, s_dn


# ------------------------------------------------------------------------------------------
#   SOC matrices
# ------------------------------------------------------------------------------------------
def random_soc_matrices(rng, iRvec, lattice, num_wann, nspin=2, strength=0.3):
    """random decaying real-space SOC matrices on a -R symmetric R set:
    dV_soc_wann_0_0 / _1_1 obey X(-R) = X(R)^dagger per cartesian component, dV_soc_wann_0_1 and
    overlap_up_down are general (overlap close to the identity at R=0)"""
    iRvec = np.asarray(iRvec)
    cR = np.linalg.norm(iRvec @ lattice, axis=1)
    a0 = np.mean(np.linalg.norm(lattice, axis=1))
    envR = np.exp(-cR / (rng.uniform(0.5, 1.0) * a0))

    def rnd(shape_tail):
        shape = (len(iRvec), num_wann, num_wann) + shape_tail
        X = rng.normal(size=shape) + 1j * rng.normal(size=shape)
        return X * envR.reshape((-1,) + (1,) * (len(shape) - 1)) * strength

    mats = {"dV_soc_wann_0_0": gen_systems.hermitize(iRvec, rnd((3,)))}
    if nspin == 2:
        mats["dV_soc_wann_1_1"] = gen_systems.hermitize(iRvec, rnd((3,)))
        mats["dV_soc_wann_0_1"] = rnd((3,))
        ov = rnd(()) * 0.5
        i0 = iRvec.tolist().index([0, 0, 0])
        ov[i0] += np.eye(num_wann)
        mats["overlap_up_down"] = ov
    return mats


def soc_rset(rng, system_up, system_down, mode=None):
    """R set carrying the SOC matrices: 'up', 'down', 'union' (random order) or 'own' (independent set)"""
    if mode is None:
        mode = ["up", "down", "union", "own"][int(rng.integers(4))]
    if mode == "up":
        return mode, system_up.rvec.iRvec.copy()
    if mode == "down":
        return mode, system_down.rvec.iRvec.copy()
    if mode == "union":
        u = np.unique(np.vstack([system_up.rvec.iRvec, system_down.rvec.iRvec]), axis=0)
        return mode, u[rng.permutation(len(u))]
    if mode == "own":
        return mode, gen_systems.symmetric_R_set(rng, radius=rng.uniform(1.0, 1.8), periodic=tuple(system_up.periodic))
    raise ValueError(mode)


def _angles(theta, phi, units):
    if units == "degrees":
        return np.rad2deg(theta), np.rad2deg(phi)
    return theta, phi


def soc_system_direct(rng, system_up, system_down=None, theta=0.0, phi=0.0, alpha_soc=1.0, units="radians",
                      rmode=None, with_soc=True, strength=0.3):
    """`SystemSOC` whose SOC matrices are set directly with `set_R_mat` on an R set chosen by `rmode`.

    theta, phi are in radians; with units='degrees' they are converted before being handed to the
    library together with units='degrees'.
    with_soc=False: no SOC matrices at all (`has_soc` stays False); only `rvec` is provided, which
    the library needs to build a Grid.
    Returns (system, info) with info = dict(theta, phi, alpha_soc, nspin, rmode, iRvec_soc, mats, with_soc)
    """
    from wannierberri.system.system_soc import SystemSOC
    from wannierberri.fourier.rvectors import Rvectors
    nspin = 1 if system_down is None else 2
    sdn = system_up if system_down is None else system_down
    sys_soc = SystemSOC(system_up=system_up, system_down=system_down, silent=True)
    rmode, iR = soc_rset(rng, system_up, sdn, rmode)
    sys_soc.rvec = Rvectors(lattice=sys_soc.real_lattice, iRvec=np.array(iR, dtype=int),
                            shifts_left_red=sys_soc.wannier_centers_red)
    sys_soc.set_pointgroup([])
    info = dict(theta=float(theta), phi=float(phi), alpha_soc=float(alpha_soc), nspin=nspin, rmode=rmode,
                iRvec_soc=np.array(iR, dtype=int), with_soc=bool(with_soc), path="direct", units=units)
    if not with_soc:
        info["mats"] = {}
        info["alpha_soc"] = 0.0
        return sys_soc, info
    mats = random_soc_matrices(rng, iR, sys_soc.real_lattice, system_up.num_wann, nspin=nspin, strength=strength)
    for k, v in mats.items():
        sys_soc.set_R_mat(k, v.copy())
    sys_soc.has_soc = True
    th, ph = _angles(theta, phi, units)
    sys_soc.set_soc_axis(theta=th, phi=ph, alpha_soc=alpha_soc, units=units)
    info["mats"] = mats
    return sys_soc, info


def fake_chk(mp_grid, kpt_red, v_matrix):
    """minimal stand-in of a CheckPoint for SystemSOC.set_soc_R"""
    return types.SimpleNamespace(mp_grid=np.array(mp_grid, dtype=int), kpt_red=np.array(kpt_red, dtype=float),
                                 num_kpts=len(kpt_red), v_matrix=np.array(v_matrix),
                                 num_bands=v_matrix[0].shape[0], num_wann=v_matrix[0].shape[1])


def _semi_unitary(rng, nb, nw):
    q, _ = np.linalg.qr(rng.normal(size=(nb, nb)) + 1j * rng.normal(size=(nb, nb)))
    return q[:, :nw]


def soc_system_via_chk(rng, system_up, system_down=None, mp_grid=None, v_mode=None, extra_bands=0,
                       theta=0.0, phi=0.0, alpha_soc=1.0, strength=0.3, give_overlap=True):
    """`SystemSOC` whose SOC matrices come from `set_soc_R(SOC, chk_up, chk_down)`:
    a smooth Wannier-gauge model dV^W(R) is Fourier transformed (periodic gauge, phases
    e^{2 pi i q.R}) to a Gamma-centred `mp_grid` in random order, rotated to a "Bloch" gauge
    with (semi-)unitary matrices V (identity / random unitary / NB > num_wann) and handed over
    as `SOC(data, overlap)` + check-point stand-ins.

    Returns (system, info); info additionally holds mp_grid, kpt_red and the Wannier-gauge input
    at the mesh points `dVW_q[(s,t)]` (nk,nw,nw,3) and `ovW_q` (nk,nw,nw) for an on-mesh oracle.
    """
    from wannierberri.system.system_soc import SystemSOC
    from wannierberri.w90files.soc import SOC
    nspin = 1 if system_down is None else 2
    nw = system_up.num_wann
    if mp_grid is None:
        mp_grid = tuple(int(x) for x in rng.integers(2, 5, size=3))
    mp_grid = np.array(mp_grid, dtype=int)
    mp_grid[np.logical_not(system_up.periodic)] = 1
    if v_mode is None:
        v_mode = ["identity", "unitary"][int(rng.integers(2))]
    nb = nw + int(extra_bands)
    kint = np.array([(i, j, k) for i in range(mp_grid[0]) for j in range(mp_grid[1]) for k in range(mp_grid[2])])
    kint = kint[rng.permutation(len(kint))]
    # equivalent points may be given shifted by a reciprocal lattice vector
    kpt_red = kint / mp_grid[None, :] + rng.integers(-1, 2, size=kint.shape) * (rng.random() < 0.5)
    nk = len(kpt_red)
    # smooth model in the Wannier gauge on a small ball
    iRm = gen_systems.symmetric_R_set(rng, radius=rng.uniform(1.0, 1.6), periodic=tuple(system_up.periodic))
    model = random_soc_matrices(rng, iRm, system_up.real_lattice, nw, nspin=nspin, strength=strength)
    ph = np.exp(2j * np.pi * (kpt_red @ iRm.T))  # [k, R]

    def to_q(X):
        return np.einsum("kr,r...->k...", ph, X)

    pairs = [(0, 0)] if nspin == 1 else [(0, 0), (0, 1), (1, 1)]
    dVW_q = {p: to_q(model[f"dV_soc_wann_{p[0]}_{p[1]}"]) for p in pairs}
    ovW_q = to_q(model["overlap_up_down"]) if nspin == 2 else None
    V = []
    for s in range(nspin):
        if v_mode == "identity" and nb == nw:
            V.append(np.array([np.eye(nw, dtype=complex)] * nk))
        else:
            V.append(np.array([_semi_unitary(rng, nb, nw) for _ in range(nk)]))
    data = np.zeros((nk, nspin, nspin, 3, nb, nb), dtype=complex)
    for (s, t), X in dVW_q.items():
        # Bloch gauge: D = V_s X V_t^dagger  ->  V_s^dagger D V_t = X
        D = np.einsum("kim,kmnc,kjn->kcij", V[s], X, V[t].conj())
        data[:, s, t] = D
        if s != t:
            data[:, t, s] = np.conj(np.swapaxes(D, 2, 3))
    overlap = None
    if nspin == 2 and give_overlap:
        overlap = np.einsum("kim,kmn,kjn->kij", V[0], ovW_q, V[1].conj())
    soc = SOC(data=data, overlap=overlap)
    chk_up = fake_chk(mp_grid, kpt_red, V[0])
    chk_dn = fake_chk(mp_grid, kpt_red, V[1]) if nspin == 2 else None
    sys_soc = SystemSOC(system_up=system_up, system_down=system_down, silent=True)
    sys_soc.set_soc_R(soc, chk_up=chk_up, chk_down=chk_dn, theta=theta, phi=phi, alpha_soc=alpha_soc)
    sys_soc.set_pointgroup([])
    if nspin == 2 and not give_overlap:
        ovW_q = np.einsum("kim,kin->kmn", V[0].conj(), V[1])
    mats = {k: np.array(sys_soc.get_R_mat(k)) for k in
            (["dV_soc_wann_0_0"] if nspin == 1 else ["dV_soc_wann_0_0", "dV_soc_wann_1_1", "dV_soc_wann_0_1",
                                                     "overlap_up_down"])}
    info = dict(theta=float(theta), phi=float(phi), alpha_soc=float(alpha_soc), nspin=nspin, rmode="mdrs",
                iRvec_soc=np.array(sys_soc.rvec.iRvec), with_soc=True, path="chk", mats=mats, units="radians",
                mp_grid=mp_grid, kpt_red=kpt_red, dVW_q=dVW_q, ovW_q=ovW_q, v_mode=v_mode, nb=nb)
    return sys_soc, info


def soc_system(rng, relation=None, num_wann=None, nspin=None, path=None, alpha_soc=None, with_soc=True,
               theta=None, phi=None, same_centers=None, keys=("Ham",), units=None, radius=None, rmode=None):
    """one-stop G-soc generator.  Returns (SystemSOC, info); info['relation'] is the R-set relation of
    the spin channels, info['system_up'/'system_down'] the channel systems."""
    if nspin is None:
        nspin = 2 if rng.random() < 0.8 else 1
    if relation is None:
        relation = RELATIONS[int(rng.integers(4))]
    if num_wann is None:
        num_wann = int(rng.integers(1, 4))
    if path is None:
        path = "direct" if rng.random() < 0.65 else "chk"
    if theta is None:
        theta = [0.0, np.pi / 2, np.pi, rng.uniform(0, np.pi), rng.uniform(0, np.pi)][int(rng.integers(5))]
    if phi is None:
        phi = [0.0, rng.uniform(-np.pi, np.pi), rng.uniform(0, 2 * np.pi)][int(rng.integers(3))]
    if alpha_soc is None:
        alpha_soc = [1.0, rng.uniform(0.2, 2.0), -rng.uniform(0.2, 1.0)][int(rng.integers(3))]
    if same_centers is None:
        same_centers = rng.random() < 0.6
    if units is None:
        units = "degrees" if rng.random() < 0.3 else "radians"
    s_up, s_dn = updown_systems(rng, num_wann=num_wann, relation=relation, same_centers=same_centers, keys=keys,
                                radius=radius)
    if nspin == 1:
        s_dn = None
        relation = "equal"
    if not with_soc:
        path = "direct"
    if path == "direct":
        sys_soc, info = soc_system_direct(rng, s_up, s_dn, theta=theta, phi=phi, alpha_soc=alpha_soc, units=units,
                                          with_soc=with_soc, rmode=rmode)
    else:
        sys_soc, info = soc_system_via_chk(rng, s_up, s_dn, theta=theta, phi=phi, alpha_soc=alpha_soc,
                                           extra_bands=int(rng.integers(0, 3)),
                                           give_overlap=bool(rng.random() < 0.8))
    info["relation"] = relation
    info["system_up"] = s_up
    info["system_down"] = s_dn if s_dn is not None else s_up
    info["num_wann_scalar"] = s_up.num_wann
    return sys_soc, info


# ------------------------------------------------------------------------------------------
#   harness-side reference of a SystemSOC
# ------------------------------------------------------------------------------------------
def _conj_R(iRvec, X):
    """Y(R) = X(-R)^dagger (zero where -R is absent)"""
    index = {tuple(R): i for i, R in enumerate(np.asarray(iRvec).tolist())}
    Y = np.zeros_like(X)
    for i, R in enumerate(np.asarray(iRvec).tolist()):
        j = index.get(tuple(-x for x in R))
        if j is not None:
            Y[i] = np.conj(np.swapaxes(X[j], 0, 1))
    return Y


def soc_ham_R_ref(info, alpha_soc=None, theta=None, phi=None):
    """(iRvec, Ham_SOC(R)) of the SOC term assembled from the primary matrices in `info`"""
    iR = info["iRvec_soc"]
    nw = info["num_wann_scalar"]
    out = np.zeros((len(iR), 2 * nw, 2 * nw), dtype=complex)
    if not info["with_soc"]:
        return iR, out
    th = info["theta"] if theta is None else theta
    ph = info["phi"] if phi is None else phi
    al = info["alpha_soc"] if alpha_soc is None else alpha_soc
    P = pauli_rotated_ref(th, ph)
    m = info["mats"]
    if info["nspin"] == 2:
        blocks = {(0, 0): m["dV_soc_wann_0_0"], (1, 1): m["dV_soc_wann_1_1"], (0, 1): m["dV_soc_wann_0_1"],
                  (1, 0): _conj_R(iR, m["dV_soc_wann_0_1"])}
    else:
        blocks = {(s, t): m["dV_soc_wann_0_0"] for s in (0, 1) for t in (0, 1)}
    for (s, t), X in blocks.items():
        out[:, s::2, t::2] = np.einsum("rmnc,c->rmn", X, P[s, t])
    return iR, out * al


def soc_SS_R_ref(info, theta=None, phi=None):
    """(iRvec, SS(R)) of the spin operator assembled from the primary matrices"""
    iR = info["iRvec_soc"]
    nw = info["num_wann_scalar"]
    th = info["theta"] if theta is None else theta
    ph = info["phi"] if phi is None else phi
    P = pauli_rotated_ref(th, ph)
    out = np.zeros((len(iR), 2 * nw, 2 * nw, 3), dtype=complex)
    i0 = np.asarray(iR).tolist().index([0, 0, 0])
    eye = np.eye(nw)
    for s in (0, 1):
        out[i0, s::2, s::2, :] = eye[:, :, None] * P[s, s][None, None, :]
    if info["nspin"] == 2:
        ov = info["mats"]["overlap_up_down"]
        out[:, 0::2, 1::2, :] = ov[:, :, :, None] * P[0, 1][None, None, None, :]
        out[:, 1::2, 0::2, :] = _conj_R(iR, ov)[:, :, :, None] * P[1, 0][None, None, None, :]
    else:
        out[i0, 0::2, 1::2, :] = eye[:, :, None] * P[0, 1][None, None, :]
        out[i0, 1::2, 0::2, :] = eye[:, :, None] * P[1, 0][None, None, :]
    return iR, out


def _ft(iR, X, k):
    return np.einsum("r,r...->...", np.exp(2j * np.pi * (np.asarray(iR) @ np.asarray(k, dtype=float))), X)


def soc_H_ref(info, kpoints_red, alpha_soc=None, theta=None, phi=None):
    """reference H(k) (periodic gauge, phases e^{2 pi i k.R} only), shape (nk, 2N, 2N)"""
    s_up, s_dn = info["system_up"], info["system_down"]
    nw = info["num_wann_scalar"]
    iRs, HsocR = soc_ham_R_ref(info, alpha_soc=alpha_soc, theta=theta, phi=phi)
    out = []
    for k in np.atleast_2d(kpoints_red):
        H = np.zeros((2 * nw, 2 * nw), dtype=complex)
        H[0::2, 0::2] = _ft(s_up.rvec.iRvec, s_up.get_R_mat("Ham"), k)
        H[1::2, 1::2] = _ft(s_dn.rvec.iRvec, s_dn.get_R_mat("Ham"), k)
        H += _ft(iRs, HsocR, k)
        out.append(H)
    return np.array(out)


def soc_bands_ref(info, kpoints_red, alpha_soc=None, theta=None, phi=None):
    H = soc_H_ref(info, kpoints_red, alpha_soc=alpha_soc, theta=theta, phi=phi)
    H = 0.5 * (H + np.conj(np.swapaxes(H, 1, 2)))
    return np.linalg.eigvalsh(H)


def soc_SS_ref(info, kpoints_red, theta=None, phi=None):
    """reference spin operator S_c(k) in the Wannier basis (periodic gauge), shape (nk, 2N, 2N, 3)"""
    iR, SSR = soc_SS_R_ref(info, theta=theta, phi=phi)
    return np.array([_ft(iR, SSR, k) for k in np.atleast_2d(kpoints_red)])


def updown_bands_union(info, kpoints_red):
    """sorted union of the spin-up and spin-down spectra, shape (nk, 2N)"""
    Eu = gen_systems.bands(info["system_up"], kpoints_red)
    Ed = gen_systems.bands(info["system_down"], kpoints_red)
    return np.sort(np.concatenate([Eu, Ed], axis=1), axis=1)
