"""G-kp of DESIGN 3.1: random k.p Hamiltonians with analytic derivatives (harness side).

    H(x) = sum_{|alpha|<=degree} C_alpha x^alpha  +  sum_j A_j cos(q_j.x + phi_j)

with Hermitian coefficient matrices C_alpha, A_j (1-4 bands).  `x` is the vector the user function
receives from SystemKP: the cartesian k (`convention='cart'`, k_vector_cartesian=True) or the reduced k
(`convention='red'`).  Derivatives handed to SystemKP are always w.r.t. *cartesian* k (documented), i.e. in
the reduced convention the chain rule  d/dk_c = sum_i inv(recip)[c,i] d/dx_i  is applied here.

Everything (values, derivatives of any order, rigorous sup-norm bounds over the box) is evaluated from the
coefficient tables by explicit differentiation of monomials - no finite differences, no code of the repo.

API
---
random_kp(rng, nb=None, degree=None, convention=None, box=None, trig=None, dk=None, sparse=None, boxpar=None) -> KPModel
    (boxes: kmax 0.02..5 1/A, reciprocal vectors 0.2..8 1/A incl. the small / non-cubic boxes on which the shell
     search of SystemKP failed before commit 62efcc4b; pass boxpar= to force any box)
KPModel
    .nb, .degree, .convention ('cart'|'red'), .box ('kmax'|'ortho'|'recip'|'real'|'tetra'|'hex'|'fcc'|'bcc'), .kmax, .real_lattice,
    .recip_lattice (rows = reciprocal vectors, as SystemKP builds it), .finite_diff_dk, .ntrig
    .Ham(x) .derHam(x) .der2Ham(x) .der3Ham(x)     callables in the signature SystemKP expects
    .der_x(x, n)                n-th derivative tensor w.r.t. cartesian k at argument x, shape (nb,nb)+(3,)*n
    .wrap(kred)                 reduced k translated to the box [-1/2,1/2)  (harness-side)
    .x_from_red(kred)           argument of the user function for a reduced k (after wrapping)
    .H_red(kred), .der_red(kred, n)   the same at a reduced k-point (any integer translation allowed)
    .bound(n)                   rigorous upper bound of  sup_box max_mn ||d^n H_mn / dk^n||_Frobenius
    .kcart_max                  upper bound of |k_cart| components inside the box (for rounding estimates)
    .system_kwargs(nder)        kwargs of SystemKP with the first `nder` analytic derivatives supplied
    .make_system(nder, **kw)    the SystemKP itself
    .describe()                 small dict for witnesses
    .sparse                     True if random_kp dropped monomials (model not generic: results may vanish by structure)
    .small_box                  True if the box is in the domain where the pre-62efcc4b shell search failed
wrap_k(kred)                    module-level alias of KPModel.wrap
random_k_in_box(rng, n, margin, shifts) -> (n,3) reduced k-points with |k_i| <= 1/2 - margin (+ optional integer shifts)
"""
import itertools
import math
import numpy as np
from . import env

env.setup_path()


def _monomials(degree):
    return [a for a in itertools.product(range(degree + 1), repeat=3) if sum(a) <= degree]


class KPModel:

    MAXDER = 5

    def __init__(self, coefs, exponents, convention="cart", box="kmax", kmax=1.0, real_lattice=None,
                 recip_lattice=None, trig=(), finite_diff_dk=1e-4):
        self.coefs = np.array(coefs, dtype=complex)          # (nmono, nb, nb)
        self.exponents = np.array(exponents, dtype=int)      # (nmono, 3)
        self.nb = self.coefs.shape[1]
        self.degree = int(self.exponents.sum(axis=1).max()) if len(self.exponents) else 0
        self.convention = convention
        self.box = box
        self.kmax = kmax
        self.real_lattice_in = None if real_lattice is None else np.array(real_lattice, dtype=float)
        self.recip_lattice_in = None if recip_lattice is None else np.array(recip_lattice, dtype=float)
        if box == "kmax":
            self.recip_lattice = np.eye(3) * 2 * kmax
        elif box == "real":
            self.recip_lattice = 2 * np.pi * np.linalg.inv(self.real_lattice_in).T
        else:
            self.recip_lattice = self.recip_lattice_in.copy()
        self.real_lattice = 2 * np.pi * np.linalg.inv(self.recip_lattice).T
        self.trig = [(np.array(A, dtype=complex), np.array(q, dtype=float), float(phi)) for A, q, phi in trig]
        self.ntrig = len(self.trig)
        self.finite_diff_dk = float(finite_diff_dk)
        self.sparse = False   # set by random_kp: some monomials were dropped (quantities may vanish by structure)
        # x -> cartesian:  k_cart = x @ B ;  d/dk_c = sum_i J[c,i] d/dx_i
        self.B = np.eye(3) if convention == "cart" else self.recip_lattice.copy()
        self.J = np.linalg.inv(self.B)
        # half-widths of the box in the variable x
        if convention == "cart":
            self.xmax = 0.5 * np.abs(self.recip_lattice).sum(axis=0)
        else:
            self.xmax = np.full(3, 0.5)
        self.kcart_max = 0.5 * np.abs(self.recip_lattice).sum(axis=0)
        self._tables = {}
        for n in range(self.MAXDER + 1):
            self._tables[n] = self._make_table(n)

    # ---------------------------------------------------------------- tables of derivatives
    def _to_cart(self, T, n):
        """apply J to each of the last n indices: T[..., i1..in] -> T[..., c1..cn]"""
        for ax in range(n):
            T = np.moveaxis(np.tensordot(T, self.J, axes=([T.ndim - n + ax], [1])), -1, T.ndim - n + ax)
        return T

    def _make_table(self, n):
        """(expo (T,3), W (T,nb,nb,3..3)) such that d^n H_poly/dk_cart^n = sum_t x^expo_t W_t"""
        expo, W = [], []
        for a, C in zip(self.exponents, self.coefs):
            if sum(a) < n:
                continue
            # all multi-indices c (counts per direction) with |c| = n, c <= a
            acc = {}
            for idx in itertools.product(range(3), repeat=n):
                c = [idx.count(j) for j in range(3)]
                if any(c[j] > a[j] for j in range(3)):
                    continue
                ff = 1
                for j in range(3):
                    ff *= math.factorial(a[j]) // math.factorial(a[j] - c[j])
                key = tuple(a[j] - c[j] for j in range(3))
                if key not in acc:
                    acc[key] = np.zeros((3,) * n)
                acc[key][idx] = ff
            for key, ten in acc.items():
                expo.append(key)
                W.append(self._to_cart(C.reshape(C.shape + (1,) * n) * ten, n))
        if len(expo) == 0:
            return np.zeros((0, 3), dtype=int), np.zeros((0, self.nb, self.nb) + (3,) * n, dtype=complex)
        return np.array(expo, dtype=int), np.array(W)

    # ---------------------------------------------------------------- evaluation
    def der_x(self, x, n=0):
        x = np.asarray(x, dtype=float)
        expo, W = self._tables[n]
        if len(expo):
            mono = np.prod(x[None, :] ** expo, axis=1)
            res = np.tensordot(mono, W, axes=(0, 0))
        else:
            res = np.zeros((self.nb, self.nb) + (3,) * n, dtype=complex)
        for A, q, phi in self.trig:
            qc = self.J @ q  # cartesian gradient of the phase
            ten = np.ones(())
            for _ in range(n):
                ten = np.multiply.outer(ten, qc)
            res = res + A.reshape(A.shape + (1,) * n) * (math.cos(float(q @ x) + phi + n * math.pi / 2) * ten)
        return res

    def Ham(self, x):
        return self.der_x(x, 0)

    def derHam(self, x):
        return self.der_x(x, 1)

    def der2Ham(self, x):
        return self.der_x(x, 2)

    def der3Ham(self, x):
        return self.der_x(x, 3)

    @staticmethod
    def wrap(kred):
        kred = np.asarray(kred, dtype=float)
        return kred - np.floor(kred + 0.5)

    def x_from_red(self, kred):
        kw = self.wrap(kred)
        return kw @ self.recip_lattice if self.convention == "cart" else kw

    def H_red(self, kred):
        return self.der_x(self.x_from_red(kred), 0)

    def der_red(self, kred, n):
        return self.der_x(self.x_from_red(kred), n)

    # ---------------------------------------------------------------- bounds
    def bound(self, n):
        """sup over the box (with 10% margin) of max_{mn} Frobenius norm of the n-th cartesian derivative"""
        expo, W = self._tables[n] if n <= self.MAXDER else self._make_table(n)
        res = np.zeros((self.nb, self.nb))
        if len(expo):
            mono = np.prod((1.1 * self.xmax)[None, :] ** expo, axis=1)
            fro = np.sqrt((np.abs(W.reshape(W.shape[:3] + (-1,))) ** 2).sum(axis=-1))  # (T,nb,nb)
            res = res + np.tensordot(mono, fro, axes=(0, 0))
        for A, q, phi in self.trig:
            res = res + np.abs(A) * np.linalg.norm(self.J @ q) ** n
        return float(res.max())

    # ---------------------------------------------------------------- SystemKP
    def system_kwargs(self, nder=0):
        kw = dict(Ham=self.Ham, k_vector_cartesian=(self.convention == "cart"), finite_diff_dk=self.finite_diff_dk)
        if nder >= 1:
            kw["derHam"] = self.derHam
        if nder >= 2:
            kw["der2Ham"] = self.der2Ham
        if nder >= 3:
            kw["der3Ham"] = self.der3Ham
        if self.box == "kmax":
            kw["kmax"] = self.kmax
        elif self.box == "real":
            kw.update(kmax=None, real_lattice=self.real_lattice_in)
        else:
            kw.update(kmax=None, recip_lattice=self.recip_lattice_in)
        return kw

    def make_system(self, nder=0, **extra):
        from wannierberri.system import SystemKP
        kw = self.system_kwargs(nder)
        kw.update(extra)
        return SystemKP(**kw)

    @property
    def small_box(self):
        h = np.linalg.norm(self.recip_lattice, axis=1).min() * self.finite_diff_dk
        return bool(h < (H_OLD_FAIL_CUBIC if self.box == "kmax" else H_OLD_FAIL_NONCUBIC))

    def describe(self):
        return dict(nb=self.nb, degree=self.degree, sparse=self.sparse, convention=self.convention, box=self.box, ntrig=self.ntrig,
                    finite_diff_dk=self.finite_diff_dk, recip_lattice=self.recip_lattice,
                    nmono=len(self.exponents))


def _herm(rng, nb, scale=1.0):
    X = rng.normal(size=(nb, nb)) + 1j * rng.normal(size=(nb, nb))
    return scale * 0.5 * (X + X.conj().T)


# Below these steps h = |recip row| * finite_diff_dk the shell search of SystemKP used to fail before commit
# 62efcc4b (absolute thresholds); such boxes are legal and are generated on purpose ("small" boxes, C31)
H_OLD_FAIL_CUBIC = 2.5e-5
H_OLD_FAIL_NONCUBIC = 5e-4

BOX_KINDS = ("kmax", "ortho", "recip", "real", "tetra", "hex", "fcc", "bcc")


def random_box(rng, kind, dk=1e-4):
    """returns dict(kmax=, real_lattice=, recip_lattice=) for the given kind; sizes cover realistic k.p boxes
    (kmax 0.02 ... 5 1/A; reciprocal vectors 0.2 ... 8 1/A, i.e. real cells of 0.8 ... 30 A)"""
    if kind == "kmax":
        return dict(kmax=float(10 ** rng.uniform(np.log10(0.02), np.log10(5.0))))
    size = 10 ** rng.uniform(np.log10(0.2), np.log10(8.0))
    if kind == "ortho":
        d = rng.uniform(1.0, 2.5, 3) if rng.random() < 0.7 else 10 ** rng.uniform(0, 1, 3)
        return dict(kmax=None, recip_lattice=np.diag(d / d.min() * size))
    if kind == "tetra":
        return dict(kmax=None, recip_lattice=np.diag([1.0, 1.0, rng.uniform(0.5, 2.0)]) * size)
    if kind == "hex":
        return dict(kmax=None, recip_lattice=np.array([[1, 0, 0], [-0.5, np.sqrt(3) / 2, 0],
                                                       [0, 0, rng.uniform(0.5, 2.0)]]) * size)
    if kind == "fcc":
        return dict(kmax=None, recip_lattice=np.array([[0., 1, 1], [1, 0, 1], [1, 1, 0]]) * size / np.sqrt(2))
    if kind == "bcc":
        return dict(kmax=None, recip_lattice=np.array([[-1., 1, 1], [1, -1, 1], [1, 1, -1]]) * size / np.sqrt(3))
    # generic well-conditioned cell
    while True:
        L = np.eye(3) + rng.uniform(-0.45, 0.45, (3, 3))
        L = L * rng.uniform(0.7, 1.5, 3)[:, None]
        if np.linalg.cond(L) <= 8 and np.linalg.det(L) > 0.2:
            break
    if kind == "recip":
        return dict(kmax=None, recip_lattice=L / np.linalg.norm(L, axis=1).min() * size)
    if kind == "real":
        rec = 2 * np.pi * np.linalg.inv(L).T
        fac = np.linalg.norm(rec, axis=1).min() / size   # recip scales as 1/real
        return dict(kmax=None, real_lattice=L * fac)
    raise ValueError(kind)


def random_kp(rng, nb=None, degree=None, convention=None, box=None, trig=None, dk=None, sparse=None, boxpar=None):
    """random generic k.p model.  All monomials up to `degree` are present (unless sparse) with complex Hermitian
    coefficients normalised so that every monomial is O(1) at the edge of the box; `trig` smooth
    non-polynomial terms A cos(q.x+phi) with |q.x| <~ 2.5 in the box.
    `boxpar` (dict with kmax / recip_lattice / real_lattice) overrides the random box of kind `box`."""
    if nb is None:
        nb = int(rng.integers(1, 5))
    if degree is None:
        degree = int(rng.choice([1, 2, 3], p=[0.1, 0.2, 0.7]))
    if convention is None:
        convention = ["cart", "red"][int(rng.integers(2))]
    if box is None:
        box = ["kmax", "ortho", "recip", "real"][int(rng.integers(4))] if rng.random() < 0.8 else \
            ["tetra", "hex", "fcc", "bcc"][int(rng.integers(4))]
    if trig is None:
        trig = int(rng.integers(0, 3)) if rng.random() < 0.4 else 0
    if dk is None:
        dk = 1e-4 if rng.random() < 0.4 else float(10 ** rng.uniform(-4.5, -2.7))
    if sparse is None:
        sparse = rng.random() < 0.15
    bx = random_box(rng, box, dk) if boxpar is None else dict(boxpar)
    tmp = KPModel(np.zeros((1, 1, 1)), np.zeros((1, 3), dtype=int), convention=convention, box=box,
                  kmax=bx.get("kmax"), real_lattice=bx.get("real_lattice"), recip_lattice=bx.get("recip_lattice"))
    xmax = tmp.xmax
    exps = _monomials(degree)
    if sparse:
        keep = [a for a in exps if sum(a) == 0 or rng.random() < 0.6]
        top = [a for a in exps if sum(a) == degree]
        if not any(sum(a) == degree for a in keep):
            keep.append(top[int(rng.integers(len(top)))])
        exps = keep
    coefs = []
    for a in exps:
        s = np.prod((1.0 / xmax) ** np.array(a))
        amp = rng.uniform(0.3, 1.0)
        C = _herm(rng, nb, amp * s)
        if sum(a) == 0:
            C = C + np.diag(np.sort(rng.normal(size=nb)) * 1.5)
        coefs.append(C)
    trigs = []
    for _ in range(int(trig)):
        q = rng.normal(size=3)
        q *= rng.uniform(1.0, 2.5) / np.abs(q * xmax).sum()
        trigs.append((_herm(rng, nb, rng.uniform(0.3, 1.0)), q, rng.uniform(0, 2 * np.pi)))
    model = KPModel(coefs, exps, convention=convention, box=box, kmax=bx.get("kmax"),
                    real_lattice=bx.get("real_lattice"), recip_lattice=bx.get("recip_lattice"), trig=trigs,
                    finite_diff_dk=dk)
    model.sparse = bool(sparse)
    return model


def wrap_k(kred):
    """reduced k translated to the box [-1/2,1/2) (harness side)"""
    return KPModel.wrap(kred)


def random_k_in_box(rng, n, margin=0.08, shifts=True):
    """reduced k-points with every component in [-1/2+margin, 1/2-margin]; with `shifts` some of them are
    translated by integer vectors (SystemKP must translate them back)"""
    k = rng.uniform(-0.5 + margin, 0.5 - margin, (n, 3))
    if shifts:
        sh = rng.integers(-1, 2, (n, 3)) * (rng.random((n, 1)) < 0.3)
        k = k + sh
    return k
