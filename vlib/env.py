"""Locate the repository under test and make sure it is the one that gets imported.

VERIF_REPO (default /repo) is put first on sys.path, so a scratch copy can be tested too.
Every check runs its workload in fresh sub-processes, so edits to the working tree are
always picked up ("rebuild" of a pure-Python package == fresh import).
"""
import os
import sys
import contextlib

VERIF_ROOT = os.path.dirname(os.path.dirname(os.path.abspath(__file__)))
REPO = os.path.abspath(os.environ.get("VERIF_REPO", "/repo"))
# scratch root: every run of a check gets its own (set by the parent process of the harness), so that concurrent runs do not disturb each other
WORK = os.environ.get("VERIF_WORK") or os.path.join(VERIF_ROOT, ".work")


def setup_path():
    if REPO not in sys.path[:1]:
        sys.path.insert(0, REPO)
    if VERIF_ROOT not in sys.path:
        sys.path.insert(1, VERIF_ROOT)
    os.environ.setdefault("PYTHONHASHSEED", "0")
    os.environ.setdefault("OMP_NUM_THREADS", "1")
    os.environ.setdefault("OPENBLAS_NUM_THREADS", "1")
    os.environ.setdefault("MKL_NUM_THREADS", "1")
    os.environ.setdefault("NUMBA_NUM_THREADS", "1")


def import_wb(fake_ray=True):
    """import wannierberri from REPO and verify that it really comes from there.
    By default a stand-in for `ray` (vlib/fakeray.py, not initialised => serial mode) is installed
    first, so that the library never imports the real ray (seconds per process, atexit hooks)."""
    setup_path()
    if fake_ray and "ray" not in sys.modules:
        from . import fakeray
        fakeray.install()
    with quiet():
        import wannierberri
    path = os.path.dirname(os.path.abspath(wannierberri.__file__))
    expected = os.path.join(REPO, "wannierberri")
    if os.path.realpath(path) != os.path.realpath(expected):
        raise RuntimeError(f"wannierberri imported from {path}, expected {expected}")
    return wannierberri


@contextlib.contextmanager
def quiet():
    """silence the (very chatty) library: python-level and fd-level stdout"""
    sys.stdout.flush()
    saved_fd = os.dup(1)
    devnull = os.open(os.devnull, os.O_WRONLY)
    saved_stdout = sys.stdout
    try:
        os.dup2(devnull, 1)
        sys.stdout = open(os.devnull, "w")
        yield
    finally:
        try:
            sys.stdout.close()
        except Exception:
            pass
        sys.stdout = saved_stdout
        os.dup2(saved_fd, 1)
        os.close(saved_fd)
        os.close(devnull)
