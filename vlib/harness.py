"""Shared driver of every check.

A check module defines ``case(ctx, rng, idx)`` (one generated case = one or more oracle
evaluations on the real code) and calls ``main(...)``.  The parent process shards the case
indices over fresh sub-processes (one interpreter per shard, ``subprocess`` with a
watchdog - never multiprocessing.Pool), aggregates what the monitors observed, writes
``evidence/<id>.json`` and prints the verdict:

    exit 0   held on everything explored
    exit 1   + "VIOLATION property=<id> replay=<path>"   (mechanism not an open known finding)
    exit 2   + "INCONCLUSIVE property=<id> ..."          (deciding monitor observed too little)

Every random choice of case ``idx`` comes from ``default_rng([VERIF_SEED, property number, idx])``
so a single case can be replayed with ``--replay <file>``.
"""
import argparse
import hashlib
import json
import os
import re
import subprocess
import sys
import time
import traceback

from . import env

env.setup_path()
import numpy as np  # noqa: E402


class Skip(Exception):
    """raised by a case to say: this generated input is outside the property's domain"""

    def __init__(self, reason):
        super().__init__(reason)
        self.reason = reason


class Violation(Exception):
    """raised by a monitor (possibly from deep inside the code under test)"""

    def __init__(self, mechanism, message, witness=None):
        super().__init__(message)
        self.mechanism = mechanism
        self.message = message
        self.witness = witness


def jsonable(x, depth=0):
    if depth > 6:
        return repr(x)[:200]
    if isinstance(x, (str, bool, type(None))):
        return x
    if isinstance(x, (int, np.integer)):
        return int(x)
    if isinstance(x, (float, np.floating)):
        return float(x)
    if isinstance(x, (complex, np.complexfloating)):
        return [float(x.real), float(x.imag)]
    if isinstance(x, np.ndarray):
        if x.size > 400:
            return {"shape": list(x.shape), "head": jsonable(x.reshape(-1)[:40].tolist(), depth + 1)}
        return jsonable(x.tolist(), depth + 1)
    if isinstance(x, dict):
        return {str(k): jsonable(v, depth + 1) for k, v in x.items()}
    if isinstance(x, (list, tuple, set, frozenset)):
        return [jsonable(v, depth + 1) for v in x]
    return repr(x)[:300]


class Ctx:
    """what one shard observed"""

    MAX_SAMPLES = 4
    MAX_VIOLATIONS = 20

    def __init__(self, prop, seed, tier, shard=0):
        self.prop = prop
        self.seed = seed
        self.tier = tier
        self.shard = shard
        self.evaluations = 0
        self.cases = 0
        self.keys = set()
        self.samples = []
        self.counters = {}
        self.skipped = {}
        self.violations = []
        self.harness_errors = []
        self.idx = None
        self.maxdev = {}

    @property
    def thorough(self):
        return self.tier == "thorough"

    def ev(self, n=1):
        self.evaluations += int(n)

    def count(self, name, n=1):
        self.counters[name] = self.counters.get(name, 0) + int(n)

    def nontrivial(self, key):
        h = hashlib.md5(repr(key).encode()).hexdigest()[:12]
        self.keys.add(h)

    def sample(self, obj):
        if len(self.samples) < self.MAX_SAMPLES:
            self.samples.append(jsonable(obj))

    def skip(self, reason):
        self.skipped[reason] = self.skipped.get(reason, 0) + 1

    def dev(self, name, value):
        """remember the largest observed deviation (relative to its tolerance scale) per oracle"""
        value = float(value)
        if not (value <= self.maxdev.get(name, -1.0)):
            self.maxdev[name] = value

    def violation(self, mechanism, message, witness=None):
        if len(self.violations) < self.MAX_VIOLATIONS:
            self.violations.append(dict(mechanism=mechanism, message=str(message)[:2000],
                                        witness=jsonable(witness), idx=self.idx, seed=self.seed,
                                        tier=self.tier))
        self.count("violations_raised")

    # ---- comparison helper (tolerance policy of DESIGN 3.4) -----------------------------
    def close(self, mechanism, a, b, scale=None, rtol=1e-9, atol=0.0, what="", witness=None):
        """|a-b| <= rtol*max(|a|,|b|,scale) + atol, element-wise on the max norm.
        returns True if close; records a violation otherwise"""
        a = np.asarray(a)
        b = np.asarray(b)
        self.ev()
        if a.shape != b.shape:
            self.violation(mechanism, f"{what}: shapes differ {a.shape} vs {b.shape}", witness)
            return False
        if a.size == 0:
            return True
        if not (np.all(np.isfinite(a)) and np.all(np.isfinite(b))):
            if np.array_equal(np.isnan(a), np.isnan(b)) and np.allclose(np.nan_to_num(a), np.nan_to_num(b)):
                return True
            self.violation(mechanism, f"{what}: non-finite values", witness)
            return False
        diff = float(np.max(np.abs(a - b)))
        ref = max(float(np.max(np.abs(a))), float(np.max(np.abs(b))), float(scale or 0.0))
        tol = rtol * ref + atol
        self.dev(mechanism, diff / tol if tol > 0 else (0.0 if diff == 0 else np.inf))
        if diff <= tol:
            return True
        w = dict(diff=diff, tol=tol, ref=ref)
        if witness is not None:
            w["case"] = witness
        self.violation(mechanism, f"{what}: |a-b|={diff:.3e} > tol={tol:.3e} (ref scale {ref:.3e})", w)
        return False

    def as_dict(self):
        return dict(prop=self.prop, seed=self.seed, tier=self.tier, shard=self.shard,
                    evaluations=self.evaluations, cases=self.cases, keys=sorted(self.keys),
                    samples=self.samples, counters=self.counters, skipped=self.skipped,
                    violations=self.violations, harness_errors=self.harness_errors, maxdev=self.maxdev)


def prop_number(prop):
    return int(re.sub(r"\D", "", prop))


def case_rng(seed, prop, idx):
    return np.random.default_rng([int(seed), prop_number(prop), int(idx)])


def _classify_exception(exc):
    """an exception that escapes a case: decide whether it came from the code under test
    (violation) or from the harness (harness error -> inconclusive).  The deepest frame that
    belongs to either tree decides."""
    tb = traceback.extract_tb(exc.__traceback__)
    repo = os.path.realpath(env.REPO) + os.sep
    verif = os.path.realpath(env.VERIF_ROOT) + os.sep
    where = None
    for fr in tb:
        if fr.filename.startswith("<"):   # frozen / generated frames (<frozen os>, <string>) have no file: realpath would put them under the cwd
            continue
        f = os.path.realpath(fr.filename)
        if f.startswith(verif):
            where = ("verif", fr)
        elif f.startswith(repo):
            where = ("repo", fr)
    return where


def run_one_case(ctx, case_fn, idx, state):
    rng = case_rng(ctx.seed, ctx.prop, idx)
    ctx.idx = idx
    ctx.cases += 1
    try:
        with env.quiet():
            if state is None:
                case_fn(ctx, rng, idx)
            else:
                case_fn(ctx, rng, idx, state)
    except Skip as s:
        ctx.skip(s.reason)
    except Violation as v:
        ctx.violation(v.mechanism, v.message, v.witness)
    except Exception as e:  # noqa
        where = _classify_exception(e)
        tbtxt = "".join(traceback.format_exception(type(e), e, e.__traceback__))[-3000:]
        if where is not None and where[0] == "repo":
            fr = where[1]
            mech = f"exception:{type(e).__name__}:{os.path.basename(fr.filename)}:{fr.name}"
            ctx.violation(mech, f"{type(e).__name__}: {e}", dict(traceback=tbtxt))
        else:
            ctx.harness_errors.append(dict(idx=idx, error=f"{type(e).__name__}: {e}", traceback=tbtxt))


def worker(args, prop, case_fn, setup_fn, tierconf):
    ctx = Ctx(prop, args.seed, args.tier, args.shard)
    t0 = time.time()
    # run in a private scratch directory: the library drops result files into the current directory
    scratch = os.path.join(env.WORK, f"cwd-{prop}-{os.getpid()}")
    os.makedirs(scratch, exist_ok=True)
    os.chdir(scratch)
    state = None
    if setup_fn is not None:
        with env.quiet():
            state = setup_fn(ctx)
    ncases = tierconf["cases"]
    tlimit = tierconf.get("time", 1e9)
    for idx in range(args.shard, ncases, args.nshards):
        if time.time() - t0 > tlimit:
            ctx.count("cases_not_run_time_budget")
            continue
        run_one_case(ctx, case_fn, idx, state)
    d = ctx.as_dict()
    d["wall_s"] = time.time() - t0
    with open(args.out, "w") as f:
        json.dump(d, f)
    try:
        import shutil
        os.chdir(env.VERIF_ROOT)
        shutil.rmtree(scratch, ignore_errors=True)
    except Exception:
        pass


def load_known_findings():
    """lines 'open: property=<id> mechanism=<key> <what>' and 'fixed: property=<id> <commit> <what>'"""
    path = os.path.join(env.VERIF_ROOT, "KNOWN_FINDINGS.txt")
    open_entries = []
    if os.path.exists(path):
        for line in open(path):
            line = line.strip()
            m = re.match(r"open:\s+property=(\S+)\s+mechanism=(\S+)\s+(.*)", line)
            if m:
                open_entries.append(dict(property=m.group(1), mechanism=m.group(2), what=m.group(3)))
    return open_entries


def main(prop, level, case_fn, tiers, rule, assumptions=(), setup_fn=None, required_counters=(),
         min_nontrivial=2, exhaustive=False, extra_coverage=None):
    """tiers = {'quick': dict(cases=, shards=, time=), 'thorough': dict(...)}
    `time` is the soft wall-clock budget of one shard (seconds)."""
    ap = argparse.ArgumentParser()
    ap.add_argument("--tier", default=os.environ.get("VERIF_TIER", "quick"), choices=["quick", "thorough"])
    ap.add_argument("--seed", type=int, default=int(os.environ.get("VERIF_SEED", "0")))
    ap.add_argument("--shard", type=int, default=None)
    ap.add_argument("--nshards", type=int, default=None)
    ap.add_argument("--out", default=None)
    ap.add_argument("--replay", default=None)
    ap.add_argument("--cases", type=int, default=None, help="override the number of cases")
    args = ap.parse_args()
    tierconf = dict(tiers[args.tier])
    if args.cases is not None:
        tierconf["cases"] = args.cases
    script = os.path.abspath(sys.argv[0])

    if args.replay is not None:
        rep = json.load(open(args.replay))
        ctx = Ctx(prop, rep["seed"], rep.get("tier", "quick"))
        state = None
        if setup_fn is not None:
            with env.quiet():
                state = setup_fn(ctx)
        run_one_case(ctx, case_fn, rep["idx"], state)
        print(json.dumps(dict(violations=ctx.violations, harness_errors=ctx.harness_errors,
                              skipped=ctx.skipped, evaluations=ctx.evaluations), indent=1))
        sys.exit(1 if ctx.violations else 0)

    if args.shard is not None:
        worker(args, prop, case_fn, setup_fn, tierconf)
        return

    # ------------------------------ parent ------------------------------------------
    t0 = time.time()
    nshards = max(1, min(int(tierconf.get("shards", 4)), tierconf["cases"]))
    maxpar = min(nshards, int(os.environ.get("VERIF_JOBS", os.cpu_count() or 4)))
    runroot = os.path.join(env.WORK, f"run-{prop}-{args.tier}-{os.getpid()}")   # private scratch root of this run (children: env.WORK)
    workdir = os.path.join(runroot, "shards")
    os.makedirs(workdir, exist_ok=True)
    hard = tierconf.get("time", 600) * 2.5 + 300
    pending = list(range(nshards))
    running = {}
    results = []
    failed_shards = []
    childenv = dict(os.environ)
    childenv["PYTHONHASHSEED"] = "0"
    childenv["VERIF_REPO"] = env.REPO
    childenv["VERIF_WORK"] = runroot
    while pending or running:
        while pending and len(running) < maxpar:
            sh = pending.pop(0)
            out = os.path.join(workdir, f"shard{sh}.json")
            log = open(os.path.join(workdir, f"shard{sh}.log"), "w")
            cmd = [sys.executable, script, "--tier", args.tier, "--seed", str(args.seed), "--shard", str(sh),
                   "--nshards", str(nshards), "--out", out]
            if args.cases is not None:
                cmd += ["--cases", str(args.cases)]
            p = subprocess.Popen(cmd, stdout=log, stderr=subprocess.STDOUT, env=childenv, cwd=env.VERIF_ROOT)
            running[sh] = (p, time.time(), out, log)
        time.sleep(0.05)
        for sh in list(running):
            p, ts, out, log = running[sh]
            rc = p.poll()
            if rc is None:
                if time.time() - ts > hard:
                    p.kill()
                    p.wait()
                    log.close()
                    failed_shards.append(dict(shard=sh, reason="watchdog"))
                    del running[sh]
                continue
            log.close()
            del running[sh]
            if rc == 0 and os.path.exists(out):
                results.append(json.load(open(out)))
            else:
                tail = open(log.name).read()[-1500:]
                failed_shards.append(dict(shard=sh, reason=f"exit {rc}", log_tail=tail))

    # ------------------------------ aggregate ---------------------------------------
    evaluations = sum(r["evaluations"] for r in results)
    cases = sum(r["cases"] for r in results)
    keys = set()
    counters, skipped, maxdev = {}, {}, {}
    samples, violations, herrors = [], [], []
    for r in results:
        keys.update(r["keys"])
        for k, v in r["counters"].items():
            counters[k] = counters.get(k, 0) + v
        for k, v in r["skipped"].items():
            skipped[k] = skipped.get(k, 0) + v
        for k, v in r["maxdev"].items():
            maxdev[k] = max(maxdev.get(k, 0.0), v)
        samples += r["samples"]
        violations += r["violations"]
        herrors += r["harness_errors"]
    samples = samples[:6]

    open_known = [k for k in load_known_findings() if k["property"] == prop]
    known_hits, new_violations = {}, []
    for v in violations:
        hit = next((k for k in open_known if k["mechanism"] == v["mechanism"]), None)
        if hit is not None:
            known_hits.setdefault(hit["mechanism"], hit)
        else:
            new_violations.append(v)

    replay_paths = []
    if new_violations:
        rdir = os.path.join(env.VERIF_ROOT, "replays", prop)
        os.makedirs(rdir, exist_ok=True)
        seen = set()
        for v in new_violations:
            slug = re.sub(r"[^A-Za-z0-9_.-]+", "_", v["mechanism"])[:80]
            if slug in seen:
                continue
            seen.add(slug)
            path = os.path.join(rdir, f"{slug}-seed{v['seed']}-case{v['idx']}.json")
            with open(path, "w") as f:
                json.dump(dict(property=prop, **v), f, indent=1)
            replay_paths.append((v, path))

    wall = time.time() - t0
    inconclusive_reasons = []
    if not results:
        inconclusive_reasons.append("no shard finished")
    if evaluations == 0:
        inconclusive_reasons.append("no oracle evaluation")
    if len(keys) < min_nontrivial:
        inconclusive_reasons.append(f"only {len(keys)} distinct non-trivial cases")
    for c in required_counters:
        if counters.get(c, 0) == 0:
            inconclusive_reasons.append(f"monitor counter '{c}' is zero")
    if herrors:
        inconclusive_reasons.append(f"{len(herrors)} harness errors")
    if failed_shards:
        inconclusive_reasons.append(f"{len(failed_shards)} shards failed/timed out")

    coverage = dict(
        evaluations=int(evaluations),
        distinct_nontrivial=int(len(keys)),
        rule=rule,
        samples=samples if samples else [{"note": "no sample recorded"}],
        cases_generated=int(cases),
        monitor_counters=counters,
        skipped=skipped,
        max_deviation_over_tolerance=maxdev,
        shards=dict(total=nshards, finished=len(results), failed=failed_shards),
        harness_errors=herrors[:5],
        known_findings_reproduced=sorted(known_hits),
        inconclusive_reasons=inconclusive_reasons,
        repo=env.REPO,
    )
    if exhaustive:
        coverage["exhaustive"] = True
    if extra_coverage:
        coverage.update(extra_coverage)
    evidence = dict(property_id=prop, tier=args.tier, seed=int(args.seed), level=level, coverage=coverage,
                    assumptions=list(assumptions), wall_s=round(wall, 2), violations=len(new_violations))
    # evidence/<id>.json describes runs against /repo itself; a run against a scratch copy (mutant self-test) must not overwrite it
    evdir = os.path.join(env.VERIF_ROOT, "evidence")
    if os.path.realpath(env.REPO) != os.path.realpath("/repo"):
        evdir = os.path.join(env.WORK, "evidence-not-repo")
    os.makedirs(evdir, exist_ok=True)
    with open(os.path.join(evdir, f"{prop}.json"), "w") as f:
        json.dump(evidence, f, indent=1)

    # clean work dir (and scratch directories that cases of this property may have left behind)
    try:
        import shutil
        import glob
        shutil.rmtree(runroot, ignore_errors=True)   # only this run's scratch (a concurrent run of the same check has its own root)
    except Exception:
        pass

    print(f"[{prop}] tier={args.tier} seed={args.seed} cases={cases} evaluations={evaluations} "
          f"distinct_nontrivial={len(keys)} wall={wall:.1f}s")
    if counters:
        print(f"[{prop}] monitor counters: {json.dumps(counters, sort_keys=True)}")
    if skipped:
        print(f"[{prop}] skipped: {json.dumps(skipped, sort_keys=True)}")
    if maxdev:
        print(f"[{prop}] max deviation/tolerance: " + json.dumps({k: float(f'{v:.3g}') for k, v in maxdev.items()}, sort_keys=True))
    for k in known_hits.values():
        print(f"KNOWN-FINDING: property={prop} {k['what']}")
    if new_violations:
        for v, path in replay_paths:
            print(f"[{prop}] violation mechanism={v['mechanism']}: {v['message'][:300]}")
            print(f"VIOLATION property={prop} replay={path}")
        sys.exit(1)
    if inconclusive_reasons:
        for h in herrors[:3]:
            print(f"[{prop}] harness error in case {h['idx']}: {h['error']}\n{h['traceback'][-800:]}")
        for fs in failed_shards[:3]:
            print(f"[{prop}] shard failed: {json.dumps(fs)[:1200]}")
        print(f"INCONCLUSIVE property={prop} " + "; ".join(inconclusive_reasons))
        sys.exit(2)
    print(f"[{prop}] HELD on everything explored")
    sys.exit(0)
