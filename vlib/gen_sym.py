"""Models made time-reversal or inversion symmetric *by the harness* (independently of the repository's
symmetriser), DESIGN 3.1 G-TR / G-inv."""
import numpy as np
from . import gen_systems

# behaviour of the real-space matrix elements under time reversal (+1 even, -1 odd) and inversion
TR_SIGN = dict(Ham=+1, AA=+1, BB=+1, GG=+1, FF=+1, CC=-1, OO=-1, SS=-1, SH=-1, SA=-1, SHA=-1, SR=-1, SHR=-1)
INV_SIGN = dict(Ham=+1, AA=-1, BB=-1, GG=+1, FF=+1, CC=+1, OO=+1, SS=+1, SH=+1, SA=-1, SHA=-1, SR=-1, SHR=-1)
SPIN_KEYS = ("SS", "SH", "SA", "SHA", "SR", "SHR")


def _herm(iR, mats):
    out = {}
    for k, X in mats.items():
        out[k] = gen_systems.hermitize(iR, X) if k not in gen_systems.NON_HERMITIAN else X
    return out


def tr_spinless(rng, num_wann, keys, lattice=None, radius=1.6, centers="random"):
    keys = [k for k in keys if k not in SPIN_KEYS]
    if lattice is None:
        lattice = gen_systems.random_lattice(rng)
    iR = gen_systems.symmetric_R_set(rng, radius=radius)
    mats = gen_systems.random_matrices(rng, iR, lattice, num_wann, keys=keys)
    out = {}
    for k, X in mats.items():
        out[k] = X.real.astype(complex) if TR_SIGN[k] > 0 else 1j * X.imag
    cred = gen_systems.random_centers(rng, num_wann, centers)
    return gen_systems.make_system(lattice, iR, out, cred, spinor=False), dict(kind="TR_spinless", num_wann=num_wann, keys=keys)


def tr_spinful(rng, num_orb, keys, lattice=None, radius=1.6, centers="random"):
    """interlaced ordering (up, down per orbital); T = U K with U = 1 (x) i sigma_y"""
    nw = 2 * num_orb
    if lattice is None:
        lattice = gen_systems.random_lattice(rng)
    iR = gen_systems.symmetric_R_set(rng, radius=radius)
    mats = gen_systems.random_matrices(rng, iR, lattice, nw, keys=keys)
    U = np.kron(np.eye(num_orb), np.array([[0, 1], [-1, 0]], dtype=complex))
    out = {}
    for k, X in mats.items():
        UXU = np.einsum("ab,rbc...,dc->rad...", U, X.conj(), U.conj())
        out[k] = 0.5 * (X + TR_SIGN[k] * UXU)
    c0 = gen_systems.random_centers(rng, num_orb, centers)
    cred = np.repeat(c0, 2, axis=0)
    return gen_systems.make_system(lattice, iR, out, cred, spinor=True), dict(kind="TR_spinful", num_wann=nw, keys=list(keys))


def inversion(rng, num_wann, keys, lattice=None, radius=1.6, spinful=False):
    """centres at the origin, Wannier functions of definite parity p_i"""
    if lattice is None:
        lattice = gen_systems.random_lattice(rng)
    iR = gen_systems.symmetric_R_set(rng, radius=radius)
    if not spinful:
        keys = [k for k in keys if k not in SPIN_KEYS]
    mats = gen_systems.random_matrices(rng, iR, lattice, num_wann, keys=keys)
    p = rng.choice([-1, 1], size=num_wann)
    if spinful:
        p = np.repeat(p[: num_wann // 2 + 1], 2)[:num_wann]
    index = {tuple(R): i for i, R in enumerate(iR.tolist())}
    minus = np.array([index[tuple(-x for x in R)] for R in iR.tolist()])
    out = {}
    for k, X in mats.items():
        pp = (p[:, None] * p[None, :]).reshape((1, num_wann, num_wann) + (1,) * (X.ndim - 3))
        out[k] = 0.5 * (X + INV_SIGN[k] * pp * X[minus])
    return gen_systems.make_system(lattice, iR, out, np.zeros((num_wann, 3)), spinor=bool(spinful)), \
        dict(kind="inversion", num_wann=num_wann, keys=list(keys), parities=p)


def generic(rng, num_wann, keys, spinor=False):
    s = gen_systems.herm_system(rng, num_wann=num_wann, radius=1.6, keys=keys, centers="random", spinor=spinor)
    return s
