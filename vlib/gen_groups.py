"""Catalogue of the 32 crystallographic point groups and of crystal-structure templates
(G-struct of DESIGN 3.1), plus harness-side (independent) group tools.

Nothing in this module imports the code under test, except ``build_generators`` /
``spacegroup_for`` which are explicit bridges (they receive / import the library objects).

Public API
----------
POINT_GROUPS : list of dict(name, generators, order, lattice_kind, hm)
    ``generators`` are strings in the repository's notation (``'C4z'``, ``'C4z*Inversion'``,
    ``'TimeReversal*C2x'`` ...; the primitive names are those of ``PRIMITIVES``), principal axis z,
    cubic groups in the standard cubic axes.  ``order`` is the textbook group order.
    ``lattice_kind`` is a key of ``LATTICE_FAMILIES``.
point_group(name) -> dict
lattice_for(kind, rng, allow_higher=True, z_rotation=None) -> (bravais_name, 3x3 lattice, rows = vectors)
    lattice compatible with every group of that ``lattice_kind`` (kind may also be a Bravais name).
parse_generator(string) -> list of primitives ('C', n, axis) | ('M', axis) | ('I',) | ('T',) | ('E',)
generator_matrix(string_or_primitives, frame=None) -> (improper 3x3 matrix, TR flag)   [Rodrigues, no scipy]
close_group(list of (M, TR)) -> list of (M, TR)     independent closure (exact dedup by rounding)
magnetic_variants(pg_or_generators, rng, nbw) -> dict(kind -> generator list)  ordinary / gray / black-white lists
build_generators(ps_module, generators, frame=None, how='api')  -> list of library PointSymmetry objects
    built through Rotation(n, axis) / Mirror(axis) / Inversion / TimeReversal in a rotated frame.
STRUCTURES : list of templates dict(name, lattice, positions, atom_names, magmoms, pg_order, mag_pg_order,
    symmorphic, primitive, nparams, note); positions/magmoms may be callables of the free parameters
structure(name, rng=None) -> dict with concrete numbers (free parameters drawn from rng)
spacegroup_for(struct, spinor=False, magnetic=False, include_TR=True) -> irrep SpaceGroup
typat_of(atom_names) -> list of int
"""
import numpy as np

SQ3 = np.sqrt(3.0)

# ----------------------------------------------------------------------------------------------
#  primitives of the repository's string notation (wannierberri.symmetry.point_symmetry.dict_sym)
# ----------------------------------------------------------------------------------------------
PRIMITIVES = {
    "Identity": ("E",),
    "Inversion": ("I",),
    "TimeReversal": ("T",),
    "Mx": ("M", (1, 0, 0)),
    "My": ("M", (0, 1, 0)),
    "Mz": ("M", (0, 0, 1)),
    "C2x": ("C", 2, (1, 0, 0)),
    "C2y": ("C", 2, (0, 1, 0)),
    "C2z": ("C", 2, (0, 0, 1)),
    "C3z": ("C", 3, (0, 0, 1)),
    "C4x": ("C", 4, (1, 0, 0)),
    "C4y": ("C", 4, (0, 1, 0)),
    "C4z": ("C", 4, (0, 0, 1)),
    "C6z": ("C", 6, (0, 0, 1)),
}


def parse_generator(string):
    """'TimeReversal*C2x' -> [('T',), ('C', 2, (1,0,0))]  (left factor first)"""
    if not isinstance(string, str):
        return list(string)
    return [PRIMITIVES[s.strip()] for s in string.split("*")]


def rodrigues(n, axis):
    """proper rotation by +2 pi/n about `axis` (right-hand rule), plain numpy"""
    a = np.array(axis, dtype=float)
    a = a / np.linalg.norm(a)
    th = 2 * np.pi / n
    K = np.array([[0, -a[2], a[1]], [a[2], 0, -a[0]], [-a[1], a[0], 0]])
    return np.eye(3) + np.sin(th) * K + (1 - np.cos(th)) * (K @ K)


def primitive_matrix(prim, frame=None):
    """(improper matrix, TR) of one primitive; `frame` = SO(3) matrix Q: axis -> Q @ axis"""
    Q = np.eye(3) if frame is None else np.asarray(frame, dtype=float)
    kind = prim[0]
    if kind == "E":
        return np.eye(3), False
    if kind == "I":
        return -np.eye(3), False
    if kind == "T":
        return np.eye(3), True
    if kind == "C":
        return rodrigues(prim[1], Q @ np.array(prim[2], dtype=float)), False
    if kind == "M":
        a = Q @ np.array(prim[1], dtype=float)
        a = a / np.linalg.norm(a)
        return np.eye(3) - 2 * np.outer(a, a), False
    raise ValueError(prim)


def generator_matrix(gen, frame=None):
    """product of the primitives (matrix product, left factor acts last), TR = parity of 'T'"""
    M = np.eye(3)
    TR = False
    for prim in parse_generator(gen):
        m, t = primitive_matrix(prim, frame)
        M = M @ m
        TR = TR != t
    return M, TR


def _key(M, TR, dec=6):
    return tuple(np.round(M, dec).reshape(-1) + 0.0) + (bool(TR),)


def close_group(elements, maxsize=400):
    """independent closure of a set of (improper matrix, TR) under multiplication.
    Elements are de-duplicated by their rounded matrix (crystallographic operations differ by O(1))."""
    found = {}
    for M, TR in elements:
        found.setdefault(_key(M, TR), (np.array(M, dtype=float), bool(TR)))
    if not found:
        found[_key(np.eye(3), False)] = (np.eye(3), False)
    while True:
        new = {}
        items = list(found.values())
        for M1, T1 in items:
            for M2, T2 in items:
                M3, T3 = M1 @ M2, T1 != T2
                k = _key(M3, T3)
                if k not in found and k not in new:
                    new[k] = (M3, T3)
        if not new:
            break
        found.update(new)
        if len(found) > maxsize:
            raise RuntimeError("generators do not give a finite group")
    return list(found.values())


def group_from_generators(generators, frame=None):
    return close_group([generator_matrix(g, frame) for g in generators])


# ----------------------------------------------------------------------------------------------
#  the 32 crystallographic point groups
# ----------------------------------------------------------------------------------------------
def _pg(name, hm, generators, order, lattice_kind):
    return dict(name=name, hm=hm, generators=list(generators), order=order, lattice_kind=lattice_kind)


POINT_GROUPS = [
    _pg("C1", "1", [], 1, "triclinic"),
    _pg("Ci", "-1", ["Inversion"], 2, "triclinic"),
    _pg("C2", "2", ["C2z"], 2, "monoclinic"),
    _pg("Cs", "m", ["Mz"], 2, "monoclinic"),
    _pg("C2h", "2/m", ["C2z", "Inversion"], 4, "monoclinic"),
    _pg("D2", "222", ["C2z", "C2x"], 4, "orthorhombic"),
    _pg("C2v", "mm2", ["C2z", "Mx"], 4, "orthorhombic"),
    _pg("D2h", "mmm", ["C2z", "C2x", "Inversion"], 8, "orthorhombic"),
    _pg("C4", "4", ["C4z"], 4, "tetragonal_axial"),
    _pg("S4", "-4", ["C4z*Inversion"], 4, "tetragonal_axial"),
    _pg("C4h", "4/m", ["C4z", "Inversion"], 8, "tetragonal_axial"),
    _pg("D4", "422", ["C4z", "C2x"], 8, "tetragonal"),
    _pg("C4v", "4mm", ["C4z", "Mx"], 8, "tetragonal"),
    _pg("D2d", "-42m", ["C4z*Inversion", "C2x"], 8, "tetragonal"),
    _pg("D4h", "4/mmm", ["C4z", "C2x", "Inversion"], 16, "tetragonal"),
    _pg("C3", "3", ["C3z"], 3, "trigonal_axial"),
    _pg("C3i", "-3", ["C3z", "Inversion"], 6, "trigonal_axial"),
    _pg("D3", "32", ["C3z", "C2x"], 6, "trigonal_x"),
    _pg("C3v", "3m", ["C3z", "Mx"], 6, "trigonal_x"),
    _pg("D3d", "-3m", ["C3z", "C2x", "Inversion"], 12, "trigonal_x"),
    _pg("C6", "6", ["C6z"], 6, "hexagonal_axial"),
    _pg("C3h", "-6", ["C3z", "Mz"], 6, "hexagonal_axial"),
    _pg("C6h", "6/m", ["C6z", "Inversion"], 12, "hexagonal_axial"),
    _pg("D6", "622", ["C6z", "C2x"], 12, "hexagonal"),
    _pg("C6v", "6mm", ["C6z", "Mx"], 12, "hexagonal"),
    _pg("D3h", "-6m2", ["C3z", "Mz", "Mx"], 12, "hexagonal"),
    _pg("D6h", "6/mmm", ["C6z", "C2x", "Inversion"], 24, "hexagonal"),
    _pg("T", "23", ["C2z", "C2x", "C4z*C4x"], 12, "cubic"),
    _pg("Th", "m-3", ["C2z", "C2x", "C4z*C4x", "Inversion"], 24, "cubic"),
    _pg("O", "432", ["C4z", "C4x"], 24, "cubic"),
    _pg("Td", "-43m", ["C4z*Inversion", "C4x*Inversion"], 24, "cubic"),
    _pg("Oh", "m-3m", ["C4z", "C4x", "Inversion"], 48, "cubic"),
]

# alternative (equivalent or differently oriented) generator lists of the same abstract group, all
# compatible with the same lattice_kind unless stated; used for "redundant / shuffled generator" cases
ALTERNATIVE_GENERATORS = {
    "C2h": [["Mz", "Inversion"], ["C2z", "Mz"]],
    "D2": [["C2x", "C2y"], ["C2y", "C2z", "C2x"]],
    "C2v": [["Mx", "My"], ["C2z", "My"]],
    "D2h": [["Mx", "My", "Mz"], ["C2z", "C2y", "Mz"]],
    "C4": [["C4z", "C2z"], ["C4z*C4z*C4z"]],
    "C4h": [["C4z", "Mz"], ["C4z*Inversion", "Mz"]],
    "D4": [["C4z", "C2y"], ["C4z", "C2x", "C2y"]],
    "C4v": [["C4z", "My"], ["C4z", "Mx", "My"]],
    "D2d": [["C4z*Inversion", "Mx"], ["C4z*Inversion", "C2y"]],
    "D4h": [["C4z", "Mx", "Mz"], ["C4z", "C2x", "Mz"], ["C4z*Inversion", "Mx", "Mz"]],
    "C3i": [["C3z*Inversion"], ["C6z*Mz"]],
    "D3": [["C3z", "C2y"]],      # NB: '312' setting; with a rhombohedral lattice needs kind 'trigonal_y'
    "C3v": [["C3z", "My"]],
    "D3d": [["C3z", "Mx", "Inversion"], ["C3z*Inversion", "C2x"]],
    "C6": [["C3z", "C2z"], ["C6z", "C3z", "C2z"]],
    "C3h": [["C6z*Inversion"], ["C3z", "C6z*Inversion"]],
    "C6h": [["C6z", "Mz"], ["C3z", "C2z", "Inversion"]],
    "D6": [["C6z", "C2y"], ["C3z", "C2z", "C2x"]],
    "C6v": [["C6z", "My"], ["C3z", "Mx", "My"]],
    "D3h": [["C6z*Inversion", "Mx"], ["C3z", "Mz", "C2y"], ["C3z", "Mz", "My"]],
    "D6h": [["C6z", "Mx", "Mz"], ["C3z", "C2z", "C2x", "Inversion"], ["C6z", "C2y", "Mz"]],
    "T": [["C2z", "C4x*C4y"], ["C4z*C4x", "C4x*C4y", "C2x"]],
    "Th": [["Mz", "C4z*C4x"], ["C2z", "C4x*C4y", "Inversion"]],
    "O": [["C4x", "C4y"], ["C4z", "C4x", "C4y"], ["C4z", "C4z*C4x"]],
    "Td": [["C4z*Inversion", "C4z*C4x"], ["C4x*Inversion", "C4y*Inversion"]],
    "Oh": [["C4x", "C4y", "Inversion"], ["C4z*Inversion", "C4x"], ["C4z", "C4z*C4x", "Mz"]],
}
# alternatives whose in-plane axis is y instead of x (matter only for rhombohedral lattices)
_Y_SETTING = {("D3", 0), ("C3v", 0)}


def point_group(name):
    for pg in POINT_GROUPS:
        if pg["name"] == name or pg["hm"] == name:
            return pg
    raise KeyError(name)


def alternative_generators(name):
    """list of (generator list, lattice_kind) equivalent to the catalogue entry"""
    pg = point_group(name)
    out = [(list(pg["generators"]), pg["lattice_kind"])]
    for i, g in enumerate(ALTERNATIVE_GENERATORS.get(pg["name"], [])):
        kind = pg["lattice_kind"]
        if (pg["name"], i) in _Y_SETTING:
            kind = "trigonal_y"
        out.append((list(g), kind))
    return out


def magnetic_variants(pg, rng=None, nbw=3):
    """generator lists of the magnetic groups derived from `pg` (a catalogue entry or a plain generator list):
    'ordinary' (no TR), 'gray' (TR itself is an element, order 2n), and black-white variants
    'bw<i>' where a non-empty subset of the generators is multiplied by TimeReversal
    (order n, or 2n when an odd power gives pure TR).  The expected order has to come from
    ``group_from_generators``; only the rule 'n or 2n' is catalogue knowledge."""
    gens = list(pg["generators"]) if isinstance(pg, dict) else list(pg)
    out = {"ordinary": gens, "gray": gens + ["TimeReversal"]}
    n = len(gens)
    masks = list(range(1, 2 ** n))
    if rng is not None and len(masks) > nbw:
        masks = [int(m) for m in rng.choice(masks, nbw, replace=False)]
    for m in masks:
        side = (m % 2 == 0)
        bw = []
        for i, g in enumerate(gens):
            if (m >> i) & 1:
                bw.append(("TimeReversal*" + g) if not side else (g + "*TimeReversal"))
            else:
                bw.append(g)
        out[f"bw{m}"] = bw
    return out


# ----------------------------------------------------------------------------------------------
#  lattices
# ----------------------------------------------------------------------------------------------
def _rotz(phi):
    c, s = np.cos(phi), np.sin(phi)
    return np.array([[c, -s, 0], [s, c, 0], [0, 0, 1.0]])


def _abc(rng):
    a = rng.uniform(2.5, 4.0)
    b = a * rng.uniform(1.15, 1.6)
    c = a * (rng.uniform(1.7, 2.3) if rng.random() < 0.5 else rng.uniform(0.55, 0.85))
    return a, b, c


def _triclinic(rng):
    while True:
        L = np.eye(3) + rng.uniform(-0.45, 0.45, (3, 3))
        L = L * rng.uniform(0.7, 1.5, 3)[:, None]
        if np.linalg.cond(L) <= 20 and abs(np.linalg.det(L)) > 0.2:
            break
    if np.linalg.det(L) < 0:
        L[2] *= -1
    return L * rng.uniform(2.0, 5.0)


def _mono(rng, centred):
    a, b, c = _abc(rng)
    g = rng.uniform(np.pi / 3, 2 * np.pi / 3 - 0.2) + (0.25 if rng.random() < 0.5 else 0.0)
    va = np.array([a, 0, 0])
    vb = np.array([b * np.cos(g), b * np.sin(g), 0])
    vc = np.array([0, 0, c])
    if centred:
        return np.array([va, (vb + vc) / 2, (vb - vc) / 2])
    return np.array([va, vb, vc])


def _rhombo(rng, along):
    a, _, c = _abc(rng)
    ph0 = 0.0 if along == "x" else np.pi / 2
    return np.array([[a * np.cos(ph0 + i * 2 * np.pi / 3), a * np.sin(ph0 + i * 2 * np.pi / 3), c / 2] for i in range(3)])


BRAVAIS = {
    "triclinic": lambda rng: _triclinic(rng),
    "monoclinic_P": lambda rng: _mono(rng, False),
    "monoclinic_A": lambda rng: _mono(rng, True),
    "orthorhombic_P": lambda rng: np.diag(_abc(rng)),
    "orthorhombic_C": lambda rng: (lambda a, b, c: np.array([[a, -b, 0], [a, b, 0], [0, 0, 2 * c]]) / 2)(*_abc(rng)),
    "orthorhombic_C_oblique": lambda rng: (lambda a, b, c: np.array([[a, 0, 0], [a / 2, b / 2, 0], [0, 0, c]]))(*_abc(rng)),
    "orthorhombic_I": lambda rng: (lambda a, b, c: np.array([[-a, b, c], [a, -b, c], [a, b, -c]]) / 2)(*_abc(rng)),
    "orthorhombic_F": lambda rng: (lambda a, b, c: np.array([[0, b, c], [a, 0, c], [a, b, 0]]) / 2)(*_abc(rng)),
    "tetragonal_P": lambda rng: (lambda a, b, c: np.diag([a, a, c]))(*_abc(rng)),
    "tetragonal_I": lambda rng: (lambda a, b, c: np.array([[-a, a, c], [a, -a, c], [a, a, -c]]) / 2)(*_abc(rng)),
    "hexagonal": lambda rng: (lambda a, b, c: np.array([[a, 0, 0], [-a / 2, a * SQ3 / 2, 0], [0, 0, c]]))(*_abc(rng)),
    "rhombohedral_x": lambda rng: _rhombo(rng, "x"),   # a1 projects on x: mirror My, two-fold axis y
    "rhombohedral_y": lambda rng: _rhombo(rng, "y"),   # a1 projects on y: mirror Mx, two-fold axis x
    "cubic_P": lambda rng: np.eye(3) * _abc(rng)[0],
    "cubic_F": lambda rng: np.array([[0, 1, 1], [1, 0, 1], [1, 1, 0.]]) * _abc(rng)[0] / 2,
    "cubic_I": lambda rng: np.array([[-1, 1, 1], [1, -1, 1], [1, 1, -1.]]) * _abc(rng)[0] / 2,
}

_CUB = ["cubic_P", "cubic_F", "cubic_I"]
_TET = ["tetragonal_P", "tetragonal_I"]
_ORT = ["orthorhombic_P", "orthorhombic_C", "orthorhombic_C_oblique", "orthorhombic_I", "orthorhombic_F"]
_MON = ["monoclinic_P", "monoclinic_A"]
# family -> (own lattices, higher-symmetry lattices that are also compatible)
LATTICE_FAMILIES = {
    "triclinic": (["triclinic"], _MON + _ORT + _TET + ["hexagonal", "rhombohedral_x"] + _CUB),
    "monoclinic": (_MON, _ORT + _TET + ["hexagonal"] + _CUB),
    "orthorhombic": (_ORT, _TET + ["hexagonal"] + _CUB),
    "tetragonal": (_TET, _CUB),
    "tetragonal_axial": (_TET, _CUB),
    "trigonal_axial": (["hexagonal", "rhombohedral_x", "rhombohedral_y"], []),
    "trigonal_x": (["hexagonal", "rhombohedral_y"], []),
    "trigonal_y": (["hexagonal", "rhombohedral_x"], []),
    "hexagonal": (["hexagonal"], []),
    "hexagonal_axial": (["hexagonal"], []),
    "cubic": (_CUB, []),
}
# families whose groups contain only operations about z (and inversion): any rotation of the lattice about z is allowed
AXIAL_KINDS = ("monoclinic", "tetragonal_axial", "trigonal_axial", "hexagonal_axial")


def lattice_for(kind, rng, allow_higher=True, z_rotation=None):
    """(bravais_name, lattice) compatible with all groups of lattice_kind `kind` in the standard frame.
    kind may be a family (key of LATTICE_FAMILIES) or directly a key of BRAVAIS.
    z_rotation: None -> random rotation about z for the axial families with probability 1/2;
                True/False force it."""
    if kind in BRAVAIS:
        return kind, np.array(BRAVAIS[kind](rng), dtype=float)
    own, higher = LATTICE_FAMILIES[kind]
    pool = own
    if allow_higher and higher and rng.random() < 0.25:
        pool = higher
    name = pool[int(rng.integers(len(pool)))]
    L = np.array(BRAVAIS[name](rng), dtype=float)
    if kind == "triclinic":
        from .gen_systems import random_rotation
        if (z_rotation is None and rng.random() < 0.5) or z_rotation is True:
            L = L @ random_rotation(rng).T
    elif kind in AXIAL_KINDS:
        if (z_rotation is None and rng.random() < 0.5) or z_rotation is True:
            L = L @ _rotz(rng.uniform(0, 2 * np.pi)).T
    return name, L


def incompatible_lattice_for(generators, rng, margin=0.02, tries=50):
    """a lattice that is clearly NOT invariant under the group (or None if every lattice is, e.g. C1/Ci)"""
    G = group_from_generators(generators)
    for _ in range(tries):
        L = _triclinic(rng)
        worst = 0.0
        for M, _TR in G:
            A = L @ M.T @ np.linalg.inv(L)
            worst = max(worst, np.abs(A - np.round(A)).max())
        if worst > margin:
            return L
    return None


# ----------------------------------------------------------------------------------------------
#  bridge to the library: build PointSymmetry objects through Rotation / Mirror in a rotated frame
# ----------------------------------------------------------------------------------------------
def build_generators(ps, generators, frame=None, how="api"):
    """`ps` = module wannierberri.symmetry.point_symmetry.
    how='api'    : Rotation(n, Q@axis), Mirror(Q@axis), Inversion, TimeReversal multiplied with '*'
    how='matrix' : PointSymmetry(Q M Q^T, TR) from the harness-side matrix"""
    Q = np.eye(3) if frame is None else np.asarray(frame, dtype=float)
    out = []
    for g in generators:
        if how == "matrix":
            M, TR = generator_matrix(g, Q)
            out.append(ps.PointSymmetry(M, TR))
            continue
        res = None
        for prim in parse_generator(g):
            k = prim[0]
            if k == "E":
                op = ps.Identity
            elif k == "I":
                op = ps.Inversion
            elif k == "T":
                op = ps.TimeReversal
            elif k == "C":
                op = ps.Rotation(int(prim[1]), list(Q @ np.array(prim[2], dtype=float) * 1.7))
            elif k == "M":
                op = ps.Mirror(list(Q @ np.array(prim[1], dtype=float) * 0.6))
            res = op if res is None else res * op
        out.append(res)
    return out


# ----------------------------------------------------------------------------------------------
#  crystal-structure templates (G-struct).  Only atoms are supplied; the group always comes from spglib/irrep
# ----------------------------------------------------------------------------------------------
def _st(name, lattice, positions, atom_names, pg_order, magmoms=None, mag_pg_order=None, symmorphic=True,
        nparams=0, note="", primitive=True):
    return dict(name=name, lattice=lattice, positions=positions, atom_names=atom_names, magmoms=magmoms,
                pg_order=pg_order, mag_pg_order=mag_pg_order, symmorphic=symmorphic, nparams=nparams, note=note,
                primitive=primitive)


# lattice: key of BRAVAIS or explicit 3x3; positions: callable(p) -> list of reduced positions, p = free parameters
# in (0.07, 0.43) drawn generic; magmoms: callable(p) or list or None.
# pg_order = order of the crystallographic point group (no TR); mag_pg_order = order of the magnetic point group
# obtained with the listed magnetic moments (operations with and without TR counted, pure TR included if present).
STRUCTURES = [
    _st("P1", "triclinic", lambda p: [[0, 0, 0], [p[0], p[1], p[2]]], ["A", "B"], 1, nparams=3),
    _st("P-1", "triclinic", lambda p: [[0, 0, 0], [p[0], p[1], p[2]], [-p[0], -p[1], -p[2]]], ["A", "B", "B"], 2, nparams=3),
    _st("P2", "monoclinic_P", lambda p: [[p[0], p[1], p[2]], [-p[0], -p[1], p[2]], [0, 0, p[3]], [0.5, 0, p[4]]],
        ["A", "A", "B", "C"], 2, nparams=5),
    _st("Pm", "monoclinic_P", lambda p: [[p[0], p[1], 0], [p[2], p[3], 0.5], [p[4], p[5], p[6]], [p[4], p[5], -p[6]]],
        ["A", "B", "C", "C"], 2, nparams=7),
    _st("P222", "orthorhombic_P",
        lambda p: [[p[0], p[1], p[2]], [-p[0], -p[1], p[2]], [-p[0], p[1], -p[2]], [p[0], -p[1], -p[2]], [0, 0, 0]],
        ["A", "A", "A", "A", "B"], 4, nparams=3),
    _st("Pmm2", "orthorhombic_P", lambda p: [[0, 0, 0], [0.5, 0.5, p[0]], [0, 0.5, p[1]]], ["A", "B", "C"], 4, nparams=2),
    _st("P4mm", "tetragonal_P", lambda p: [[0, 0, 0], [0.5, 0.5, p[0]], [0.5, 0, p[1]], [0, 0.5, p[1]]],
        ["A", "B", "C", "C"], 8, nparams=2),
    _st("P-4m2", "tetragonal_P", lambda p: [[0, 0, 0], [0, 0.5, p[0]], [0.5, 0, -p[0]]], ["A", "B", "B"], 8, nparams=1),
    _st("P422", "tetragonal_P",
        lambda p: [[p[0], p[1], p[2]], [-p[0], -p[1], p[2]], [-p[1], p[0], p[2]], [p[1], -p[0], p[2]],
                   [-p[0], p[1], -p[2]], [p[0], -p[1], -p[2]], [p[1], p[0], -p[2]], [-p[1], -p[0], -p[2]]],
        ["A"] * 8, 8, nparams=3),
    _st("P3m1", "hexagonal", lambda p: [[0, 0, 0], [1 / 3, 2 / 3, p[0]], [2 / 3, 1 / 3, p[1]]], ["A", "B", "C"], 6, nparams=2),
    _st("P321", "hexagonal",
        lambda p: [[p[0], p[1], p[2]], [-p[1], p[0] - p[1], p[2]], [-p[0] + p[1], -p[0], p[2]],
                   [p[1], p[0], -p[2]], [p[0] - p[1], -p[1], -p[2]], [-p[0], -p[0] + p[1], -p[2]]],
        ["A"] * 6, 6, nparams=3),
    _st("P3121_Te", "hexagonal", lambda p: [[p[0], 0, 1 / 3], [0, p[0], 2 / 3], [-p[0], -p[0], 0]], ["A"] * 3, 6,
        symmorphic=False, nparams=1, note="tellurium-like, screw axis"),
    _st("P6mm", "hexagonal",
        lambda p: [[0, 0, 0], [1 / 3, 2 / 3, p[0]], [2 / 3, 1 / 3, p[0]], [0.5, 0, p[1]], [0, 0.5, p[1]], [0.5, 0.5, p[1]]],
        ["A", "B", "B", "C", "C", "C"], 12, nparams=2),
    _st("P-6m2", "hexagonal", lambda p: [[0, 0, 0], [1 / 3, 2 / 3, 0.5]], ["A", "B"], 12),
    _st("F-43m", "cubic_F", lambda p: [[0, 0, 0], [0.25, 0.25, 0.25]], ["A", "B"], 24, note="zincblende"),
    _st("P4/mmm", "tetragonal_P", lambda p: [[0, 0, 0], [0.5, 0.5, 0.5]], ["A", "B"], 16),
    _st("Pm-3m", "cubic_P", lambda p: [[0, 0, 0], [0.5, 0.5, 0.5]], ["A", "B"], 48, note="CsCl"),
    _st("Cmmm_oblique", np.array([[1, 0, 0], [.5, .8, 0], [0, 0, 1.3]]) * 3.0, lambda p: [[0, 0, 0]], ["A"], 8,
        note="oblique setting of a centred-rectangular cell (DESIGN 6-F6)"),
    _st("Fd-3m", "cubic_F", lambda p: [[0, 0, 0], [0.25, 0.25, 0.25]], ["A", "A"], 48, symmorphic=False, note="diamond"),
    _st("P63/mmc", "hexagonal", lambda p: [[1 / 3, 2 / 3, 0.25], [2 / 3, 1 / 3, 0.75]], ["A", "A"], 24, symmorphic=False,
        note="hcp"),
    _st("Im-3m_FM", "cubic_I", lambda p: [[0, 0, 0]], ["A"], 48, magmoms=[[0, 0, 1.0]], mag_pg_order=16,
        note="bcc ferromagnet, moment along z: 4/mm'm'"),
    _st("I4/mmm_AFM", "tetragonal_P", lambda p: [[0, 0, 0], [0.5, 0.5, 0.5]], ["A", "A"], 16,
        magmoms=[[0, 0, 1.0], [0, 0, -1.0]], mag_pg_order=32, primitive=False,
        note="two-sublattice antiferromagnet: TR*translation is a symmetry, the magnetic point group is gray; "
             "without moments the cell is a NON-PRIMITIVE cell of I4/mmm (32 operations, 16 distinct rotations)"),
    _st("P-6m2_FMx", "hexagonal", lambda p: [[0, 0, 0], [1 / 3, 2 / 3, 0.5]], ["A", "B"], 12,
        magmoms=[[1.0, 0, 0], [0, 0, 0]], mag_pg_order=4, note="in-plane moment on A: m'm2'"),
    _st("kagome_noncollinear", "hexagonal",
        lambda p: [[0.5, 0, 0], [0, 0.5, 0], [0.5, 0.5, 0], [0, 0, p[0]]], ["A", "A", "A", "B"], 12,
        magmoms=[[0, 1.0, 0], [-SQ3 / 2, -0.5, 0], [SQ3 / 2, -0.5, 0], [0, 0, 0]], mag_pg_order=None, nparams=1,
        note="kagome-like 120-degree order; magnetic order left to spglib"),
]


def typat_of(atom_names):
    index = {}
    for n in atom_names:
        index.setdefault(n, len(index) + 1)
    return [index[n] for n in atom_names]


def structure(name, rng=None, params=None):
    """concrete structure: dict(name, lattice (3x3), lattice_name, positions (n,3) reduced, atom_names, typat,
    magmoms (n,3) or None, pg_order, mag_pg_order, symmorphic, params)"""
    tpl = next(s for s in STRUCTURES if s["name"] == name)
    if rng is None:
        rng = np.random.default_rng(0)
    if params is None:
        # generic free parameters, well separated from each other and from special values
        while True:
            params = rng.uniform(0.07, 0.43, max(tpl["nparams"], 1))
            d = np.abs(params[:, None] - params[None, :]) + np.eye(len(params))
            if d.min() > 0.02 and np.abs(params - 0.25).min() > 0.02 and np.abs(params - 1 / 3).min() > 0.02:
                break
    if isinstance(tpl["lattice"], str):
        lattice_name, lattice = tpl["lattice"], np.array(BRAVAIS[tpl["lattice"]](rng), dtype=float)
    else:
        lattice_name, lattice = "explicit", np.array(tpl["lattice"], dtype=float)
    positions = np.array(tpl["positions"](params), dtype=float)
    mm = tpl["magmoms"]
    if callable(mm):
        mm = mm(params)
    mm = None if mm is None else np.array(mm, dtype=float)
    return dict(name=name, lattice=lattice, lattice_name=lattice_name, positions=positions,
                atom_names=list(tpl["atom_names"]), typat=typat_of(tpl["atom_names"]), magmoms=mm,
                pg_order=tpl["pg_order"], mag_pg_order=tpl["mag_pg_order"], symmorphic=tpl["symmorphic"],
                primitive=tpl["primitive"], params=np.array(params), note=tpl["note"])


def spacegroup_for(struct, spinor=False, magnetic=False, include_TR=True, symprec=1e-5):
    """irrep.spacegroup.SpaceGroup of a concrete structure (irrep >= 2.2 API, the same call the repository makes
    in System_R.symmetrize / SystemSOC).  magnetic=True passes the template's magnetic moments (must exist);
    include_TR=True adds time-reversed operations (for a non-magnetic structure: every operation twice)."""
    from irrep.spacegroup import SpaceGroup
    magmom = None
    if magnetic:
        if struct["magmoms"] is None:
            raise ValueError(f"structure {struct['name']} has no magnetic moments")
        magmom = np.array(struct["magmoms"], dtype=float)
    return SpaceGroup.from_cell(real_lattice=np.array(struct["lattice"], dtype=float),
                                positions=np.array(struct["positions"], dtype=float),
                                typat=list(struct["typat"]), magmom=magmom, include_TR=include_TR,
                                spinor=spinor, symprec=symprec)


def expected_sg_pointgroup_order(struct, magnetic=False, include_TR=True):
    """number of distinct (rotation, TR) pairs the space group must contain, or None if not catalogued"""
    if magnetic:
        n = struct["mag_pg_order"]
        if n is None:
            return None
        if include_TR:
            return n
        return None
    return struct["pg_order"] * (2 if include_TR else 1)
