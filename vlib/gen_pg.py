"""Small catalogue of (lattice, point-group generators) pairs used by the grid/K-point checks.
Generators are given in the repository's own notation (strings, or ('rot', n, axis) / ('mirror', axis)
tuples that are turned into Rotation/Mirror objects), optionally multiplied by TimeReversal."""
import numpy as np

S3 = np.sqrt(3.0)


def _lat(kind, rng):
    a = rng.uniform(2.5, 4.0)
    b = a * rng.uniform(1.15, 1.5)
    c = a * rng.uniform(1.6, 2.2)
    if kind == "cubic":
        return np.eye(3) * a
    if kind == "fcc":
        return np.array([[0, 1, 1], [1, 0, 1], [1, 1, 0]]) * a / 2
    if kind == "bcc":
        return np.array([[-1, 1, 1], [1, -1, 1], [1, 1, -1]]) * a / 2
    if kind == "tetragonal":
        return np.diag([a, a, c])
    if kind == "bct":
        return np.array([[-a, a, c], [a, -a, c], [a, a, -c]]) / 2
    if kind == "orthorhombic":
        return np.diag([a, b, c])
    if kind == "ortho_c_oblique":  # oblique setting of a centred-rectangular cell
        return np.array([[a, 0, 0], [a / 2, b * 0.8, 0], [0, 0, c]])
    if kind == "ortho_bc":
        return np.array([[-a, b, c], [a, -b, c], [a, b, -c]]) / 2
    if kind == "ortho_fc":
        return np.array([[0, b, c], [a, 0, c], [a, b, 0]]) / 2
    if kind == "ortho_cc":
        return np.array([[a, -b, 0], [a, b, 0], [0, 0, 2 * c]]) / 2
    if kind == "hexagonal":
        return np.array([[a, 0, 0], [-a / 2, a * S3 / 2, 0], [0, 0, c]])
    if kind == "hexagonal60":
        return np.array([[a, 0, 0], [a / 2, a * S3 / 2, 0], [0, 0, c]])
    if kind == "rhombohedral":
        x = rng.uniform(0.1, 0.4)
        return a * (np.eye(3) + x * (np.ones((3, 3)) - np.eye(3)))
    if kind == "monoclinic_y":
        return np.array([[a, 0, 0], [0, b, 0], [0.3 * c, 0, c]])
    if kind == "triclinic":
        while True:
            L = np.eye(3) + rng.uniform(-0.4, 0.4, (3, 3))
            if np.linalg.cond(L) < 10 and np.linalg.det(L) > 0.3:
                return L * a
    raise ValueError(kind)


# name, lattice kind, generators, order (without the optional time reversal), axes mixed by the group
CATALOGUE = [
    ("1", "triclinic", [], 1, ()),
    ("-1", "triclinic", ["Inversion"], 2, ()),
    ("2_y", "monoclinic_y", ["C2y"], 2, ()),
    ("m_y", "monoclinic_y", ["My"], 2, ()),
    ("2/m_y", "monoclinic_y", ["C2y", "Inversion"], 4, ()),
    ("222", "orthorhombic", ["C2z", "C2x"], 4, ()),
    ("mm2", "orthorhombic", ["Mx", "My"], 4, ()),
    ("mmm", "orthorhombic", ["Mx", "My", "Mz"], 8, ()),
    ("m_x_oblique", "ortho_c_oblique", ["Mx"], 2, (0, 1)),
    ("mm2_oblique", "ortho_c_oblique", ["Mx", "My"], 4, (0, 1)),
    ("mmm_oblique", "ortho_c_oblique", ["Mx", "My", "Mz"], 8, (0, 1)),
    ("mmm_bco", "ortho_bc", ["Mx", "My", "Mz"], 8, (0, 1, 2)),
    ("222_bco", "ortho_bc", ["C2z", "C2x"], 4, (0, 1, 2)),
    ("mmm_fco", "ortho_fc", ["Mx", "My", "Mz"], 8, (0, 1, 2)),
    ("mm2_cco", "ortho_cc", ["Mx", "My"], 4, (0, 1)),
    ("mmm_cco", "ortho_cc", ["Mx", "My", "Mz"], 8, (0, 1)),
    ("4", "tetragonal", ["C4z"], 4, (0, 1)),
    ("-4", "tetragonal", ["C4z*Inversion"], 4, (0, 1)),
    ("4/m", "tetragonal", ["C4z", "Inversion"], 8, (0, 1)),
    ("422", "tetragonal", ["C4z", "C2x"], 8, (0, 1)),
    ("4mm", "tetragonal", ["C4z", "Mx"], 8, (0, 1)),
    ("-42m", "tetragonal", ["C4z*Inversion", "C2x"], 8, (0, 1)),
    ("4/mmm", "tetragonal", ["C4z", "C2x", "Inversion"], 16, (0, 1)),
    ("4/mmm_bct", "bct", ["C4z", "C2x", "Inversion"], 16, (0, 1, 2)),
    ("3", "hexagonal", ["C3z"], 3, (0, 1)),
    ("-3", "hexagonal", ["C3z", "Inversion"], 6, (0, 1)),
    ("32", "hexagonal", ["C3z", "C2x"], 6, (0, 1)),
    ("3m", "hexagonal", ["C3z", "Mx"], 6, (0, 1)),
    ("-3m", "hexagonal", ["C3z", "C2x", "Inversion"], 12, (0, 1)),
    ("6", "hexagonal", ["C6z"], 6, (0, 1)),
    ("-6", "hexagonal", ["C6z*Inversion"], 6, (0, 1)),
    ("6/m", "hexagonal60", ["C6z", "Inversion"], 12, (0, 1)),
    ("622", "hexagonal", ["C6z", "C2x"], 12, (0, 1)),
    ("6mm", "hexagonal60", ["C6z", "Mx"], 12, (0, 1)),
    ("-6m2", "hexagonal", ["C6z*Inversion", "Mx"], 12, (0, 1)),
    ("6/mmm", "hexagonal", ["C6z", "C2x", "Inversion"], 24, (0, 1)),
    ("3_rh", "rhombohedral", [("rot", 3, (1, 1, 1))], 3, (0, 1, 2)),
    ("-3m_rh", "rhombohedral", [("rot", 3, (1, 1, 1)), ("mirror", (1, -1, 0)), "Inversion"], 12, (0, 1, 2)),
    ("23", "cubic", ["C2z", "C2x", ("rot", 3, (1, 1, 1))], 12, (0, 1, 2)),
    ("m-3", "cubic", ["C2z", "C2x", ("rot", 3, (1, 1, 1)), "Inversion"], 24, (0, 1, 2)),
    ("432", "cubic", ["C4z", "C4x"], 24, (0, 1, 2)),
    ("-43m", "fcc", ["C4z*Inversion", ("rot", 3, (1, 1, 1))], 24, (0, 1, 2)),
    ("m-3m", "cubic", ["C4z", "C4x", "Inversion"], 48, (0, 1, 2)),
    ("m-3m_fcc", "fcc", ["C4z", "C4x", "Inversion"], 48, (0, 1, 2)),
    ("m-3m_bcc", "bcc", ["C4z", "C4x", "Inversion"], 48, (0, 1, 2)),
]


def make_generators(gens, time_reversal="none", rng=None):
    """time_reversal: 'none' | 'grey' (TR itself is an element) | 'bw' (one generator multiplied by TR)"""
    from wannierberri.symmetry import point_symmetry as ps
    out = []
    for g in gens:
        if isinstance(g, str):
            out.append(ps.from_string_prod(g))
        elif g[0] == "rot":
            out.append(ps.Rotation(g[1], list(g[2])))
        elif g[0] == "mirror":
            out.append(ps.Mirror(list(g[1])))
        else:
            raise ValueError(g)
    if time_reversal == "grey":
        out.append(ps.TimeReversal)
    elif time_reversal == "bw" and len(out) > 0:
        i = 0 if rng is None else int(rng.integers(len(out)))
        out[i] = out[i] * ps.TimeReversal
    return out


SHEARED = ("m_x_oblique", "mm2_oblique", "mmm_oblique", "mm2_cco", "mmm_cco", "mmm_bco")


def pick(rng, name=None, sheared=False):
    if name is None and sheared:
        name = SHEARED[int(rng.integers(len(SHEARED)))]
    if name is None:
        entry = CATALOGUE[int(rng.integers(len(CATALOGUE)))]
    else:
        entry = next(e for e in CATALOGUE if e[0] == name)
    nm, kind, gens, order, mixed = entry
    return dict(name=nm, kind=kind, gens=gens, order=order, mixed=mixed, lattice=_lat(kind, rng))


def group_matrices(pointgroup):
    """for every operation: matrix A acting on reduced row vectors k (k' = k @ A), computed by the
    harness from the cartesian rotation, the inversion and time-reversal flags and the reciprocal lattice"""
    recip = np.asarray(pointgroup.recip_lattice)
    inv = np.linalg.inv(recip)
    mats = []
    for s in pointgroup.symmetries:
        sign = (-1 if s.TR else 1) * (-1 if s.Inv else 1)
        mats.append(sign * (recip @ np.asarray(s.R).T @ inv))
    return mats


def symmetric_sizes(pointgroup, rng, nmax=6, mixed=()):
    """random grid sizes (n1,n2,n3) accepted by the group (the code's own symmetric_grid decides)"""
    for _ in range(200):
        n = np.array([int(x) for x in rng.integers(1, nmax + 1, size=3)])
        if len(mixed) >= 2:
            n[list(mixed)] = n[mixed[0]]
        if pointgroup.symmetric_grid(n):
            return n
    return np.array([1, 1, 1])
