"""Deterministic stand-in for the part of the `ray` API that wannierberri uses
(is_initialized, cluster_resources, put, remote(f).remote(...), wait, get, init, shutdown).

Purpose (C12): drive the *real* collection loop `run_grid.process` under adversary-chosen
completion orders.  Semantics of `wait` follow what was measured on the installed ray 2.48:
the set of finished tasks only grows, and `wait(refs, num_returns=n)` returns the first n
*finished* refs in the order of `refs` (so the returned lists of successive calls need not be
nested); it blocks until at least n tasks have finished.

The module is installed into sys.modules['ray'] *before* wannierberri is imported (also for the
purely serial checks: then `is_initialized()` is False and the library runs in serial mode
without importing the real ray, which costs seconds per process).
"""
import copy
import sys
import types


class ObjRef:
    def __init__(self, value):
        self.value = value


class TaskRef:
    _count = 0

    def __init__(self, func, args, kwargs, index):
        self.func = func
        self.args = args
        self.kwargs = kwargs
        self.index = index
        self.done = False
        self.value = None
        TaskRef._count += 1
        self.uid = TaskRef._count

    def execute(self):
        if not self.done:
            # objects passed through put() are shared (read-only by convention); everything else is
            # passed by value, as between processes
            args = [(a.value if isinstance(a, ObjRef) else copy.deepcopy(a)) for a in self.args]
            kwargs = {k: (v.value if isinstance(v, ObjRef) else copy.deepcopy(v)) for k, v in self.kwargs.items()}
            self.value = copy.deepcopy(self.func(*args, **kwargs))
            self.done = True
        return self.value


class RemoteFunction:
    def __init__(self, state, func):
        self.state = state
        self.func = func

    def remote(self, *args, **kwargs):
        t = TaskRef(self.func, args, kwargs, len(self.state.batch))
        self.state.batch.append(t)
        self.state.log.append(("submit", t.uid))
        return t


class Scheduler:
    """adversary: decides the completion order of a batch of submitted tasks and how many
    additional tasks finish before each `wait` returns"""

    def __init__(self, order_fn=None, extra_fn=None):
        # order_fn(n, batch_number) -> permutation of range(n) ; extra_fn(wait_call_number, n_pending) -> int >= 0
        self.order_fn = order_fn or (lambda n, ib: list(range(n)))
        self.extra_fn = extra_fn or (lambda iw, npend: 0)


class State:
    def __init__(self):
        self.initialized = False
        self.ncpu = 1
        self.scheduler = Scheduler()
        self.reset_batches()

    def reset_batches(self):
        self.batch = []          # tasks submitted since the last completed batch
        self.order = None        # completion order of the current batch
        self.cursor = 0
        self.nbatch = 0
        self.nwait = 0
        self.log = []            # event log: submit / finish / wait(returned) / get
        self.wait_returns = []   # list of lists of task indices returned by successive wait calls (per batch)
        self.nonnested_waits = 0


STATE = State()


def is_initialized():
    return STATE.initialized


def cluster_resources():
    return {"CPU": float(STATE.ncpu)}


def init(num_cpus=1, **kwargs):
    STATE.initialized = True
    STATE.ncpu = int(num_cpus) if num_cpus else 1


def shutdown():
    STATE.initialized = False


def put(value):
    return ObjRef(value)


def remote(func=None, **options):
    if func is None:
        return lambda f: RemoteFunction(STATE, f)
    return RemoteFunction(STATE, func)


def _ensure_order(refs):
    if STATE.order is None or len(STATE.order) != len(STATE.batch):
        n = len(STATE.batch)
        order = list(STATE.scheduler.order_fn(n, STATE.nbatch))
        assert sorted(order) == list(range(n)), "scheduler must return a permutation"
        STATE.order = order
        STATE.cursor = 0


def _finish_next():
    i = STATE.order[STATE.cursor]
    STATE.cursor += 1
    t = STATE.batch[i]
    t.execute()
    STATE.log.append(("finish", t.uid))


def wait(refs, num_returns=1, timeout=None, **kwargs):
    refs = list(refs)
    _ensure_order(refs)
    own = {id(t) for t in STATE.batch}
    assert all(id(r) in own for r in refs), "wait() on refs of another batch is not supported by the stand-in"
    num_returns = min(num_returns, len(refs))

    def ready():
        return [r for r in refs if r.done]

    while len(ready()) < num_returns and STATE.cursor < len(STATE.order):
        _finish_next()
    extra = int(STATE.scheduler.extra_fn(STATE.nwait, len(STATE.order) - STATE.cursor))
    for _ in range(extra):
        if STATE.cursor < len(STATE.order):
            _finish_next()
    STATE.nwait += 1
    rd = ready()
    ret = rd[:num_returns]
    idx = [r.index for r in ret]
    if STATE.wait_returns and not set(STATE.wait_returns[-1]).issubset(set(idx)):
        STATE.nonnested_waits += 1
    STATE.wait_returns.append(idx)
    STATE.log.append(("wait", tuple(idx)))
    not_ready = [r for r in refs if r not in ret]
    return ret, not_ready


def get(refs, **kwargs):
    if isinstance(refs, (list, tuple)):
        out = [get(r) for r in refs]
        # a get() on the whole batch closes it
        if len(refs) == len(STATE.batch) and all(isinstance(r, TaskRef) for r in refs):
            STATE.batch = []
            STATE.order = None
            STATE.cursor = 0
            STATE.nbatch += 1
            STATE.wait_returns = []
        return out
    if isinstance(refs, ObjRef):
        return refs.value
    STATE.log.append(("get", refs.uid))
    return refs.execute()


def install():
    """put the stand-in into sys.modules['ray'] (must happen before wannierberri imports ray)"""
    mod = types.ModuleType("ray")
    for name in ("is_initialized", "cluster_resources", "init", "shutdown", "put", "remote", "wait", "get"):
        setattr(mod, name, globals()[name])
    mod.__version__ = "0.0-verif-standin"
    mod._verif_state = STATE
    sys.modules["ray"] = mod
    return mod
