"""System generators (DESIGN 3.1).  Everything is built through the public setters of the
code under test, so it sees exactly what a user would give it."""
import os
import numpy as np
from . import env

env.setup_path()

ALL_MATS = ("Ham", "AA", "BB", "CC", "SS", "OO", "GG", "FF", "SA", "SHA", "SR", "SH", "SHR")
NCART = dict(Ham=0, AA=1, BB=1, CC=1, SS=1, SH=1, OO=1, SHA=2, SA=2, SR=2, SHR=2, GG=2, FF=2)
NON_HERMITIAN = ("BB", "SA", "SHA", "SR", "SHR", "SH")  # quantities that are not Hermitian in general


def random_lattice(rng, maxcond=20.0, scale=None):
    """well conditioned random lattice (rows = lattice vectors), right-handed"""
    while True:
        L = np.eye(3) + rng.uniform(-0.45, 0.45, (3, 3))
        if rng.random() < 0.5:
            L = L * rng.uniform(0.7, 1.5, 3)[:, None]
        if np.linalg.cond(L) <= maxcond and abs(np.linalg.det(L)) > 0.2:
            break
    if np.linalg.det(L) < 0:
        L[2] *= -1
    if scale is None:
        scale = rng.uniform(2.0, 5.0)
    return L * scale


BRAVAIS = {
    "cubic": lambda a, b, c: np.eye(3) * a,
    "fcc": lambda a, b, c: np.array([[0, 1, 1], [1, 0, 1], [1, 1, 0]]) * a / 2,
    "bcc": lambda a, b, c: np.array([[-1, 1, 1], [1, -1, 1], [1, 1, -1]]) * a / 2,
    "tetragonal": lambda a, b, c: np.diag([a, a, c]),
    "bct": lambda a, b, c: np.array([[-a, a, c], [a, -a, c], [a, a, -c]]) / 2,
    "orthorhombic": lambda a, b, c: np.diag([a, b, c]),
    "ortho_fc": lambda a, b, c: np.array([[0, b, c], [a, 0, c], [a, b, 0]]) / 2,
    "ortho_bc": lambda a, b, c: np.array([[-a, b, c], [a, -b, c], [a, b, -c]]) / 2,
    "ortho_c": lambda a, b, c: np.array([[a, -b, 0], [a, b, 0], [0, 0, 2 * c]]) / 2,
    "hexagonal": lambda a, b, c: np.array([[a, 0, 0], [-a / 2, a * np.sqrt(3) / 2, 0], [0, 0, c]]),
    "rhombohedral": lambda a, b, c: a * (np.eye(3) + (b / a - 1.0) * 0.5 * (np.ones((3, 3)) - np.eye(3))),
    "monoclinic": lambda a, b, c: np.array([[a, 0, 0], [0, b, 0], [0.3 * c, 0, c]]),
    "mono_c": lambda a, b, c: np.array([[a, b, 0], [-a, b, 0], [0.3 * c, 0, c]]) / 1.0,
    "triclinic": None,
}


def bravais_lattice(rng, kind=None):
    kinds = list(BRAVAIS)
    if kind is None:
        kind = kinds[rng.integers(len(kinds))]
    if kind == "triclinic":
        return kind, random_lattice(rng)
    a = rng.uniform(2.5, 4.0)
    b = a * rng.uniform(1.1, 1.6)
    c = a * rng.uniform(1.7, 2.3) if rng.random() < 0.5 else a * rng.uniform(0.55, 0.9)
    return kind, np.array(BRAVAIS[kind](a, b, c), dtype=float)


def random_rotation(rng):
    q, r = np.linalg.qr(rng.normal(size=(3, 3)))
    q = q * np.sign(np.diag(r))[None, :]
    if np.linalg.det(q) < 0:
        q[:, 0] *= -1
    return q


def symmetric_R_set(rng, radius=2, periodic=(True, True, True), thin=0.0, lattice=None):
    """set of integer R closed under R -> -R, a ball in a random (or cartesian) norm"""
    rmax = int(np.ceil(radius))
    rng_ = [range(-rmax, rmax + 1) if p else range(0, 1) for p in periodic]
    allR = np.array([(i, j, k) for i in rng_[0] for j in rng_[1] for k in rng_[2]])
    if lattice is not None:
        nrm = np.linalg.norm(allR @ lattice, axis=1) / np.mean(np.linalg.norm(lattice, axis=1))
    else:
        M = np.eye(3) + rng.uniform(-0.2, 0.2, (3, 3))
        nrm = np.linalg.norm(allR @ M, axis=1)
    sel = allR[nrm <= radius + 1e-9]
    keep = {(0, 0, 0)}
    # the nearest neighbours along every periodic direction are always there (otherwise the bands may be flat)
    for i, p in enumerate(periodic):
        if p:
            e = [0, 0, 0]
            e[i] = 1
            keep.add(tuple(e))
            keep.add(tuple(-x for x in e))
    for R in sel:
        t = tuple(int(x) for x in R)
        if t in keep or tuple(-x for x in t) in keep:
            continue
        if thin > 0 and rng.random() < thin:
            continue
        keep.add(t)
        keep.add(tuple(-x for x in t))
    Rl = np.array(sorted(keep))
    return Rl[rng.permutation(len(Rl))]


def random_centers(rng, num_wann, mode="random"):
    """reduced coordinates of Wannier centres.
    modes: random (inside the home cell), outside (far outside), groups (coinciding in groups),
           highsym (on 0, 1/2, 1/3 ...), zero"""
    if mode == "zero":
        return np.zeros((num_wann, 3))
    if mode == "random":
        return rng.uniform(0, 1, (num_wann, 3))
    if mode == "outside":
        return rng.uniform(-2.5, 3.5, (num_wann, 3))
    if mode == "highsym":
        vals = np.array([0, 0.5, 1 / 3, 2 / 3, 0.25, 0.75])
        return vals[rng.integers(len(vals), size=(num_wann, 3))]
    if mode == "groups":
        ng = max(1, int(rng.integers(1, max(2, num_wann))))
        pos = rng.uniform(0, 1, (ng, 3))
        idx = np.sort(rng.integers(ng, size=num_wann))
        return pos[idx]
    raise ValueError(mode)


def make_system(lattice, iRvec, mats, centers_red, periodic=(True, True, True), spinor=None, name="verif",
                force_internal_terms_only=False):
    """System_R from explicit data, through the public setters"""
    from wannierberri.system.system_R import System_R
    from wannierberri.fourier.rvectors import Rvectors
    s = System_R(silent=True, periodic=periodic, name=name, spinor=spinor, force_internal_terms_only=force_internal_terms_only)
    s.set_real_lattice(np.array(lattice, dtype=float))
    s.num_wann = mats["Ham"].shape[1]
    s.set_wannier_centers(wannier_centers_red=np.array(centers_red, dtype=float))
    s.rvec = Rvectors(lattice=s.real_lattice, iRvec=np.array(iRvec, dtype=int), shifts_left_red=s.wannier_centers_red)
    for k, v in mats.items():
        s.set_R_mat(k, np.array(v, dtype=complex))
    s.do_at_end_of_init()
    return s


def hermitize(iRvec, X):
    """X(-R) = X(R)^dagger, done by the harness (independent of Rvectors.conj_XX_R)"""
    index = {tuple(R): i for i, R in enumerate(iRvec.tolist())}
    Xc = np.zeros_like(X)
    for i, R in enumerate(iRvec.tolist()):
        j = index[tuple(-x for x in R)]
        Xc[i] = np.conj(np.swapaxes(X[j], 0, 1))
    return 0.5 * (X + Xc)


def random_matrices(rng, iRvec, lattice, num_wann, keys=("Ham",), decay=None, bandwidth=1.0, hermitian=True,
                    onsite_spread=1.0):
    """random real-space matrices whose amplitude decays with |R| on the scale of the lattice constant"""
    cR = np.linalg.norm(iRvec @ lattice, axis=1)
    a0 = np.mean(np.linalg.norm(lattice, axis=1))
    if decay is None:
        decay = rng.uniform(0.6, 1.2) * a0
    env_R = np.exp(-cR / decay)
    mats = {}
    for key in keys:
        shape = (len(iRvec), num_wann, num_wann) + (3,) * NCART[key]
        X = (rng.normal(size=shape) + 1j * rng.normal(size=shape)) * env_R.reshape((-1,) + (1,) * (len(shape) - 1))
        if key == "Ham":
            X *= bandwidth
        else:
            X *= 0.3
        if hermitian and (key not in NON_HERMITIAN):
            X = hermitize(iRvec, X)
        if key == "Ham":
            i0 = iRvec.tolist().index([0, 0, 0])
            X[i0][np.arange(num_wann), np.arange(num_wann)] += np.sort(rng.normal(size=num_wann)) * onsite_spread
        if key == "AA":
            i0 = iRvec.tolist().index([0, 0, 0])
            X[i0][np.arange(num_wann), np.arange(num_wann)] = 0
        mats[key] = X
    return mats


def herm_system(rng, num_wann=None, lattice=None, radius=None, keys=("Ham",), centers="random",
                periodic=(True, True, True), thin=0.0, spinor=None, decay=None, bandwidth=1.0):
    """G-herm of DESIGN 3.1"""
    if num_wann is None:
        num_wann = int(rng.integers(1, 6))
    if lattice is None:
        lattice = random_lattice(rng)
    if radius is None:
        radius = rng.uniform(1.0, 2.3)
    iRvec = symmetric_R_set(rng, radius=radius, periodic=periodic, thin=thin)
    cred = random_centers(rng, num_wann, centers) if isinstance(centers, str) else np.array(centers)
    if not all(periodic):
        cred = cred.copy()
    mats = random_matrices(rng, iRvec, lattice, num_wann, keys=keys, decay=decay, bandwidth=bandwidth)
    s = make_system(lattice, iRvec, mats, cred, periodic=periodic, spinor=spinor)
    return s


def copy_system(s, mats=None, centers_red=None):
    """independent copy through the public setters (optionally with replaced matrices)"""
    if mats is None:
        mats = {k: np.array(v) for k, v in s._XX_R.items()}
    if centers_red is None:
        centers_red = s.wannier_centers_red
    s2 = make_system(s.real_lattice, s.rvec.iRvec, mats, centers_red, periodic=tuple(s.periodic), spinor=s.spinor)
    return s2


HISTORIES = ("as_built", "rvec_copy", "ws_dist", "npz_roundtrip", "ws_dist+rvec_copy")
HISTORIES_NO_DISK = ("as_built", "rvec_copy", "ws_dist", "ws_dist+rvec_copy")


def history_variant(rng, system, which=None, workdir=None):
    """Bring a system into a state that a user reaches through the public API before the operation under test: internal flags and
    caches of System_R / Rvectors depend on that history (explicit right shifts after copy()/exclude_zeros()/do_ws_dist(), cached
    reduced centres, objects rebuilt from disk).  'ws_dist' changes the model (R-vectors are folded on the chosen mesh), so it has to
    be applied before the reference observation.  Returns (system, tag); the system may be a new object."""
    import tempfile
    import shutil
    from . import env
    which = which or HISTORIES[int(rng.integers(len(HISTORIES)))]
    if which == "as_built":
        return system, which
    if which.startswith("ws_dist") and not all(system.periodic):
        # do_ws_dist on a partially periodic system may select replicas with a non-zero component along the non-periodic direction (the
        # Wigner-Seitz cell is Cartesian), which contradicts the declaration and is rejected by the file readers: not generated
        which = which.replace("ws_dist+", "").replace("ws_dist", "rvec_copy")
    if which.startswith("ws_dist"):
        mp = [int(x) if p else 1 for x, p in zip(rng.integers(3, 6, size=3), system.periodic)]
        with env.quiet():
            system.do_ws_dist(tuple(mp))
    if which.endswith("rvec_copy"):
        system.rvec = system.rvec.copy()
    if which == "npz_roundtrip":
        from wannierberri.system.system_R import System_R
        d = tempfile.mkdtemp(prefix="hist", dir=workdir)
        try:
            with env.quiet():
                system.to_npz(os.path.join(d, "s"))
                system = System_R.from_npz(os.path.join(d, "s"))
        finally:
            shutil.rmtree(d, ignore_errors=True)
    return system, which


def bands(system, kpoints_red):
    """independent diagonalisation of H(k) from the real-space matrices (harness-side reference;
    convention I: phases e^{2 pi i k.R} only - eigenvalues do not depend on the convention)"""
    Ham = system.get_R_mat("Ham")
    iR = system.rvec.iRvec
    out = []
    for k in np.atleast_2d(kpoints_red):
        ph = np.exp(2j * np.pi * (iR @ k))
        H = np.einsum("r,rab->ab", ph, Ham)
        H = 0.5 * (H + H.conj().T)
        out.append(np.linalg.eigvalsh(H))
    return np.array(out)


def bandwidth(system, nk=4):
    ks = np.array([(i, j, k) for i in range(nk) for j in range(nk) for k in range(nk)]) / nk
    ks = ks * np.array(system.periodic, dtype=float)[None, :]
    E = bands(system, ks)
    return E.min(), E.max(), (E.max(axis=0) - E.min(axis=0)).max()
