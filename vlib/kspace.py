"""Harness-side k-space reference quantities (independent of wannierberri's Fourier/gauge code).

Everything is an explicit sum over R in plain numpy:
    H_ij(k)      = sum_R exp(2 pi i k.R) H_ij(R)
    d_a H_ij(k)  = sum_R i (R + t_j - t_i)_a exp(2 pi i k.R) H_ij(R)      (cartesian, Angstrom)
i.e. the tight-binding convention in which the position operator is diagonal at the Wannier
centres, written in the gauge whose H(k) carries only lattice-vector phases.
"""
import numpy as np

ALPHA = np.array([1, 2, 0])
BETA = np.array([2, 0, 1])


def mat_k(system, key, ks, der=0):
    """explicit Fourier sum of the real-space matrix `key` at reduced k-points ks (nk,3);
    der=1 appends a cartesian derivative axis"""
    X = np.asarray(system.get_R_mat(key))
    iR = np.asarray(system.rvec.iRvec)
    ks = np.atleast_2d(np.asarray(ks, dtype=float))
    ph = np.exp(2j * np.pi * (ks @ iR.T))  # (nk, nR)
    if der == 0:
        return np.einsum("kr,rab...->kab...", ph, X)
    if der == 1:
        t = np.asarray(system.wannier_centers_red)
        lat = np.asarray(system.real_lattice)
        # d[r,a,b,:] = (R + t_b - t_a) in cartesian coordinates
        d = (iR[:, None, None, :] + t[None, None, :, :] - t[None, :, None, :]) @ lat
        extra = X.ndim - 3
        XX = X.reshape(X.shape + (1,)) * (1j * d).reshape(d.shape[:3] + (1,) * extra + (3,))
        return np.einsum("kr,rab...->kab...", ph, XX)
    raise ValueError(der)


def eig_data(system, ks, with_spin=False):
    """E (nk,nw) ascending, U (nk,nw,nw), V (nk,nw,nw,3) = U^+ dH U, S (nk,nw,nw,3) = U^+ SS(k) U or None"""
    H = mat_k(system, "Ham", ks)
    H = 0.5 * (H + np.conj(np.swapaxes(H, 1, 2)))
    dH = mat_k(system, "Ham", ks, der=1)
    E, U = np.linalg.eigh(H)
    V = np.einsum("kia,kijc,kjb->kabc", U.conj(), dH, U)
    S = None
    if with_spin:
        Sk = mat_k(system, "SS", ks)
        S = np.einsum("kia,kijc,kjb->kabc", U.conj(), Sk, U)
    return E, U, V, S


def omega_pairs(E, V, same_group=None):
    """w[k,n,l,c] = -2 Im( V^a_nl V^b_ln ) / (E_n - E_l)^2  with (a,b,c) cyclic; the band-resolved Berry
    curvature is Omega_n = sum_{l != n} w[n,l].  Pairs flagged in same_group (nk,nw,nw) are set to zero."""
    dE = E[:, :, None] - E[:, None, :]
    nw = E.shape[1]
    mask = np.eye(nw, dtype=bool)[None] | np.zeros(dE.shape, dtype=bool)
    if same_group is not None:
        mask = mask | same_group
    with np.errstate(divide="ignore", invalid="ignore"):
        inv2 = np.where(mask, 0.0, 1.0 / np.where(mask, 1.0, dE) ** 2)
    prod = V[:, :, :, ALPHA] * np.swapaxes(V, 1, 2)[:, :, :, BETA]
    return -2.0 * prod.imag * inv2[:, :, :, None]


def groups_of(Ek, thresh, kramers=False):
    """band groups of one k-point: consecutive bands closer than thresh belong together; with
    kramers=True borders are allowed at even band indices only"""
    n = len(Ek)
    borders = [0] + [i + 1 for i in range(n - 1) if Ek[i + 1] - Ek[i] > thresh] + [n]
    if kramers:
        borders = [b for b in borders if b % 2 == 0]
    return [(b1, b2) for b1, b2 in zip(borders[:-1], borders[1:])]


def grid_points(NK):
    NK = tuple(int(x) for x in NK)
    return np.array([(i / NK[0], j / NK[1], k / NK[2]) for i in range(NK[0]) for j in range(NK[1]) for k in range(NK[2])])
