"""Catalogue of every concrete calculator class (with formula variants) and helpers to read result objects."""
import inspect

import numpy as np


def calculator_catalogue(Ef, omega):
    """(name, factory) for every concrete calculator class and its formula variants"""
    from wannierberri.calculators import static, dynamic, tabulate, sdct
    from wannierberri.calculators.static import StaticCalculator
    from wannierberri.calculators.dynamic import DynamicCalculator
    from wannierberri.calculators.tabulate import Tabulator
    from wannierberri.calculators.calculator import MultitermCalculator
    out = []
    variants_static = [("", {}), ("[internal]", {"kwargs_formula": {"external_terms": False}})]
    for mod in (static, dynamic, tabulate, sdct):
        for name, cls in inspect.getmembers(mod, inspect.isclass):
            if cls.__module__ != mod.__name__ or name.startswith("_"):
                continue
            tag = f"{mod.__name__.split('.')[-1]}.{name}"
            if issubclass(cls, StaticCalculator) and cls is not StaticCalculator:
                for vn, kw in variants_static:
                    out.append((tag + vn, (lambda cls=cls, kw=kw: cls(Efermi=Ef, **kw))))
                out.append((tag + "[tetra-less,Kramers]", (lambda cls=cls: cls(Efermi=Ef, degen_Kramers=False, degen_thresh=1e-5))))
            elif issubclass(cls, DynamicCalculator) and cls is not DynamicCalculator:
                base = dict(Efermi=Ef[::2], omega=omega, kBT=0.05, smr_fixed_width=0.2)
                if name == "ShiftCurrent":
                    base["sc_eta"] = 0.1
                if name == "SHC":
                    for t in ("ryoo", "qiao", "simple"):
                        out.append((tag + f"[{t}]", (lambda cls=cls, base=base, t=t: cls(SHC_type=t, **base))))
                    continue
                for vn, kw in variants_static:
                    out.append((tag + vn, (lambda cls=cls, base=base, kw=kw: cls(**base, **kw))))
            elif issubclass(cls, Tabulator) and cls is not Tabulator:
                for vn, kw in variants_static:
                    out.append((tag + vn, (lambda cls=cls, kw=kw: cls(**kw))))
            elif issubclass(cls, MultitermCalculator) and cls is not MultitermCalculator:
                base = dict(Efermi=Ef[::2], omega=omega, kBT=0.05, smr_fixed_width=0.2)
                out.append((tag, (lambda cls=cls, base=base: cls(**base))))
    return out


def result_arrays(res):
    """list of (label, data array, transformTR, transformInv) of a result object"""
    from wannierberri.result import ResultDict
    if isinstance(res, ResultDict):
        out = []
        for k, v in res.results.items():
            out += [(f"{k}.{l}", d, a, b) for l, d, a, b in result_arrays(v)]
        return out
    if not hasattr(res, "data") or not hasattr(res, "transformTR"):
        return []
    return [("", np.array(res.data), res.transformTR, res.transformInv)]


