"""wannierberri.run wrapper for checks: serial, silent, output files into a scratch directory that is removed."""
import os
import shutil
import tempfile
from . import env


def run(system, grid, calculators, **kwargs):
    import wannierberri as wb
    base = os.path.join(env.WORK, "run")
    os.makedirs(base, exist_ok=True)
    tmp = tempfile.mkdtemp(dir=base)
    kw = dict(parallel=False, use_irred_kpt=False, symmetrize=False, print_progress_step_time=1e9)
    kw.update(kwargs)
    try:
        return wb.run(system, grid=grid, calculators=calculators, fout_name=os.path.join(tmp, "r"), **kw)
    finally:
        shutil.rmtree(tmp, ignore_errors=True)
