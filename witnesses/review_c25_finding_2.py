"""C25 review, finding 2: SystemSOC.to_npz() raises TypeError for a system constructed without `cell`.

`essential_properties` of SystemSOC contains 'cell'; System_R.to_npz does `np.savez(path, **self.cell)`; with the constructor
default cell=None this is `**None`.  Every SystemSOC built without the optional `cell` argument (the default) cannot be saved
unless the user passes exclude_properties=['cell'].
Run:  /venv/bin/python /verif/witnesses/review_c25_finding_2.py
"""
import sys
import tempfile
sys.path.insert(0, "/verif")
from vlib import env, gen_soc
env.import_wb()
import numpy as np

rng = np.random.default_rng(0)
system, info = gen_soc.soc_system(rng, nspin=2, path="direct", num_wann=2)
d = tempfile.mkdtemp()
try:
    with env.quiet():
        system.to_npz(d + "/soc")
    print("saved")
except TypeError as err:
    print("TypeError:", err)
with env.quiet():
    system.to_npz(d + "/soc", exclude_properties=["cell"])
print("with exclude_properties=['cell'] it is saved")
