"""C30 finding 1: run() with a grid tabulator and adaptive refinement (adpt_num_iter >= 1) crashes at the end.
TABresult.find_grid derives the grid from the smallest k-spacing among ALL collected points, i.e. from the refined
sub-points, so to_grid gets the refined mesh, most of whose slots are empty -> ZeroDivisionError in K__Result.to_grid
(expected: the tabulation on the original NK grid, refined points skipped - to_grid has a branch for off-grid points).
run: /venv/bin/python review_c30_finding_1.py   (uses /repo, or $VERIF_REPO)"""
import os, sys, tempfile
sys.path.insert(0, os.environ.get("VERIF_REPO", "/repo"))
import numpy as np
import wannierberri as wb
from wannierberri.calculators import tabulate as tab, static

system = wb.system.System_R.from_random(num_wann=2, nRvec=7, real_lattice=np.eye(3) * 3.0)
tmp = tempfile.mkdtemp()
for adpt in (0, 1):
    grid = wb.Grid(system, NKdiv=[2, 2, 2], NKFFT=[2, 2, 2])
    calc = {"tabulate": tab.TabulatorAll({"vel": tab.Velocity()}, mode="grid"),
            "dos": static.DOS(Efermi=np.linspace(-1, 1, 5), tetra=False)}
    try:
        out = wb.run(system, grid, calculators=calc, parallel=False, adpt_num_iter=adpt, use_irred_kpt=False,
                     symmetrize=False, fout_name=os.path.join(tmp, "r"), file_Klist_path=os.path.join(tmp, "kl"))
        r = out.results["tabulate"]
        print(f"adpt_num_iter={adpt}: grid {r.grid}, {len(r.kpoints)} points, Energy {r.get_data('Energy').shape}  OK")
    except ZeroDivisionError as err:
        print(f"adpt_num_iter={adpt}: FAILED with ZeroDivisionError: {err}  (expected grid [4 4 4], 64 points)")
        sys.exit(1)
