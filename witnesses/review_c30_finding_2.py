"""C30 finding 2: TABresult.to_grid(grid, order='F') lists the k-points in Fortran order but stores the values in C order
(ind_grid is always the C index), so row i of every result no longer belongs to kpoints[i].
run: /venv/bin/python review_c30_finding_2.py   (uses /repo, or $VERIF_REPO)"""
import os, sys
sys.path.insert(0, os.environ.get("VERIF_REPO", "/repo"))
import numpy as np
from wannierberri.result import KBandResult, TABresult

N = np.array([2, 3, 1])
pts = np.array([(i / 2, j / 3, 0.) for i in range(2) for j in range(3)])
E = (10 * pts[:, 0] * 2 + pts[:, 1] * 3)[:, None]  # E(k) = 10*ix + iy, one band
r = TABresult(pts, recip_lattice=np.eye(3), results={"Energy": KBandResult(E)})
rF = r.to_grid(N, order="F")
expected = (10 * rF.kpoints[:, 0] * 2 + rF.kpoints[:, 1] * 3)
print("kpoints      :", rF.kpoints[:, :2].tolist())
print("stored E     :", rF.results["Energy"].data[:, 0].tolist())
print("E(kpoints[i]):", np.round(expected, 6).tolist())
sys.exit(0 if np.allclose(rF.results["Energy"].data[:, 0], expected) else 1)
