"""C17 review finding 4 (input forms of AbstractSmoother.__call__):
(a) an integer array is smoothed into an array of the INPUT dtype (res = np.zeros(A.shape, dtype=A.dtype)): the smoothed values
    are truncated towards zero, and not even a constant is preserved (7 * w.sum() / w.sum() = 6.999.. -> 6);
(b) axis=-1 (numpy's way to say "last axis") raises ValueError("axes don't match array") from the transposition."""
import sys
sys.path.insert(0, "/repo")
import numpy as np
from wannierberri.smoother import GaussianSmoother
E = np.linspace(0, 1, 11)
S = GaussianSmoother(E, 0.2)
counts = np.array([0, 0, 1, 5, 9, 5, 1, 0, 0, 0, 0])
print("float input :", np.round(S(counts.astype(float)), 3))
print("int input   :", S(counts))
print("constant 7  :", S(np.full(11, 7)))
A = np.random.default_rng(0).normal(size=(3, 11))
try:
    ok = np.allclose(S(A, axis=-1), S(A, axis=1))
    print("axis=-1 equals axis=1:", ok)
except ValueError as e:
    print("axis=-1 raised ValueError:", e)
    ok = False
assert np.allclose(S(np.full(11, 7)), 7, rtol=0, atol=1e-13), "constant integer array not preserved"
assert np.allclose(S(counts), S(counts.astype(float))), "integer input truncated"
assert ok, "negative axis not accepted"
