"""C24 with sitesym=True (bundled diamond data, tests/data/diamond): windows accepted by check_irreps, yet after >=1 iteration
bands outside the outer window get weight and frozen bands leave the span (V stays an isometry).  Without sitesym: both hold.
Mechanism: Symmetrizer_Uirr.__call__ symmetrises U and re-orthogonalises it; when the subspace picked by get_max_eig(Z) does not
carry the irreps of the projections the symmetrised U loses rank and the SVD fills arbitrary directions (rows of deselected bands)."""
import os, shutil, tempfile, numpy as np, wannierberri as wb
from wannierberri.symmetry.sawf import SymmetrizerSAWF
src = os.path.join(os.path.dirname(wb.__file__), "..", "tests", "data", "diamond")
if not os.path.exists(src): src = "/repo/tests/data/diamond"
tmp = tempfile.mkdtemp(); os.chdir(tmp)
for ext in ["mmn", "amn", "eig", "win", "sawf.npz"]: shutil.copy(os.path.join(src, "diamond." + ext), tmp)
for sitesym in (False, True):
    for kw in (dict(outer_min=9.0), dict(froz_min=44.0, froz_max=48.0)):
        wd = wb.WannierData.from_w90_files(seedname="diamond", files=["amn", "mmn", "eig", "win"], readnnkp=False)
        wd.set_symmetrizer(symmetrizer=SymmetrizerSAWF.from_npz("diamond.sawf.npz"))
        wd.wannierise(sitesym=sitesym, num_iter=3, localise=False, parallel=False, savechk=False, **kw)   # check_irreps=True
        out = frz = iso = 0
        for ik, V in wd.chk.v_matrix.items():
            E = wd.eig.data[ik]; P = np.real(np.einsum("nw,nw->n", V, V.conj()))
            out = max(out, np.abs(V[E < kw.get("outer_min", -np.inf)]).max(initial=0))
            frz = max(frz, np.abs(P[(E >= kw.get("froz_min", np.inf)) & (E <= kw.get("froz_max", -np.inf))] - 1).max(initial=0))
            iso = max(iso, np.abs(V.conj().T @ V - np.eye(V.shape[1])).max())
        print(f"RESULT sitesym={sitesym} {kw}: max|V| outside outer={out:.3e}  max|1-(VV+)_nn| frozen={frz:.3e}  |V+V-1|={iso:.1e}")
shutil.rmtree(tmp)
