"""C13 review, finding 2 (minor): StaticCalculator converts Efermi with np.array(Efermi) but then uses the raw argument
(`Efermi.shape[0]`), so a list / tuple of Fermi levels raises AttributeError at construction for tetra=False while the same
list is accepted for tetra=True (and by DynamicCalculator).     usage: python review_c13_finding_2.py [repo]"""
import sys
sys.path.insert(0, sys.argv[1] if len(sys.argv) > 1 else "/repo")
import numpy as np
from wannierberri.calculators.static import DOS, CumDOS, AHC

for cls in (DOS, CumDOS, AHC):
    for Ef in (np.array([0.0, 0.1, 0.2]), [0.0, 0.1, 0.2], (0.0, 0.1, 0.2)):
        for tetra in (True, False):
            try:
                c = cls(Efermi=Ef, tetra=tetra)
                print(f"{cls.__name__:7}(Efermi={type(Ef).__name__:8}, tetra={tetra!s:5}): ok, stored as {type(c.Efermi).__name__}")
            except AttributeError as e:
                print(f"{cls.__name__:7}(Efermi={type(Ef).__name__:8}, tetra={tetra!s:5}): AttributeError: {e}")
