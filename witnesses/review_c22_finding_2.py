"""C22 widening review, finding 2: with an enlarged (documented) kmesh_tol the search sphere of find_bk_vectors cuts
through a shell, and the partial shell is selected (b-set does not consist of whole shells).
Orthorhombic cell a : b : c = 1 : 1.5 : sqrt(3), distorted by ~3e-6, mesh 2x2x2: the mesh vectors (4,0,0), (0,6,0),
(3,3,3), (0,3,6), (2,0,6) ... all have length 2|G1| = the search radius (search_supercell=2 times the longest
reciprocal vector) within 1.5e-5 << kmesh_tol = 1e-3, i.e. they are ONE shell; the cut |k| < radius*(1-1e-6) keeps 8 of 20.
Run: /venv/bin/python /verif/.work/review_c22_finding_2.py   (uses /repo; exit 1 = defect present)"""
import sys, io, contextlib
sys.path.insert(0, "/repo")
import numpy as np
from wannierberri.w90files.bkvectors import BKVectors

L = np.array([[-1.7016936850785958, 1.515509210598332, -1.1688057600067487],
              [-2.8144191898678104, -1.5189120469468582, 2.1281115465703064],
              [0.6537244328185062, 3.1160100524836767, 3.0885476547226642]])
mp = np.array([2, 2, 2])
recip = 2 * np.pi * np.linalg.inv(L).T
kint = np.array([(i, j, k) for i in range(2) for j in range(2) for k in range(2)])
with contextlib.redirect_stdout(io.StringIO()):
    bk = BKVectors.from_kpoints(recip, mp, kint / 2, kmesh_tol=1e-3, bk_complete_tol=2.3810675606300646e-06)
basis = recip / mp[:, None]
sel = {tuple(b) for b in bk.bk_grid.tolist()}
rng_ = range(-8, 9)
allv = np.array([(i, j, k) for i in rng_ for j in rng_ for k in rng_ if (i, j, k) != (0, 0, 0)])
length = np.linalg.norm(allv @ basis, axis=1)
bad = 0
for b in sorted(sel):
    lb = np.linalg.norm(np.array(b) @ basis)
    same = allv[np.abs(length - lb) < 1e-4]           # same shell for kmesh_tol = 1e-3 (next lengths are > 0.03 away)
    miss = [tuple(v) for v in same.tolist() if tuple(v) not in sel]
    if miss:
        bad += 1
        print(f"b={b} |b|={lb:.7f} selected, but {len(miss)} vectors of the same shell are not, e.g. {miss[0]} "
              f"|.|={np.linalg.norm(np.array(miss[0]) @ basis):.7f}")
print("search radius*(1-1e-6) =", 2 * np.linalg.norm(recip, axis=1).max() * (1 - 1e-6))
sys.exit(1 if bad else 0)
