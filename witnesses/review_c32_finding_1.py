"""C32 review finding 1: models.model_1d_pythtb(spinor_manual=True, hoppings=<list of 8 floats>) raises AttributeError.
The docstring declares `hoppings : list of 8 floats`; the built-in-spinor variant accepts the list, the manual-spinor variant
(`a = hoppings[:4]; a.dot(pauli[:, i, j])`) needs a numpy array -> "manual and built-in spinors give the same bands" cannot even be
evaluated for the documented argument type.  Run: /venv/bin/python review_c32_finding_1.py  (VERIF_REPO selects the tree)"""
import os, sys, warnings
sys.path.insert(0, os.environ.get("VERIF_REPO", "/repo"))
warnings.filterwarnings("ignore")
import numpy as np
from wannierberri import models
hop = [0.1, 0.2, 0.3, 0.4, 0.5, 0.6, 0.7, 0.8]
k = np.array([[0.3]])
m_spinor = models.model_1d_pythtb(Delta=1, spinor_manual=False, hoppings=hop)
print("built-in spinor, list :", np.ravel(m_spinor.solve_ham(k)))
m_manual_arr = models.model_1d_pythtb(Delta=1, spinor_manual=True, hoppings=np.array(hop))
print("manual spinor, array  :", np.ravel(m_manual_arr.solve_ham(k)))
try:
    m_manual = models.model_1d_pythtb(Delta=1, spinor_manual=True, hoppings=hop)
    print("manual spinor, list   :", np.ravel(m_manual.solve_ham(k)))
    print("OK")
except AttributeError as e:
    print("manual spinor, list   : FAILS with AttributeError:", e)
    sys.exit(1)
