"""C16 review finding 2: EnergyResult.add (in-place sum, used by calculators.static.Morb) does not invalidate the
cached_property dataSmooth; a result that was looked at before (max, savetxt, _norm) keeps the smoothed data of the
old values, so `.max` (refinement criterion) and the text output no longer belong to `.data`."""
import sys
sys.path.insert(0, "/repo")
import numpy as np
from wannierberri.result import EnergyResult
from wannierberri.smoother import FermiDiracSmoother
from wannierberri.symmetry.point_symmetry import transform_ident as T
E = np.linspace(0, 1, 11)
rng = np.random.default_rng(0)
mk = lambda: EnergyResult([E], rng.normal(size=(11, 3)), smoothers=[FermiDiracSmoother(E, 600)], transformTR=T, transformInv=T)
r, b = mk(), mk()
before = r.max.copy()                   # fills the cache
r.add(b)
fresh = EnergyResult([E], r.data.copy(), smoothers=r.smoothers, transformTR=T, transformInv=T)
print("max after add (cached):", r.max, "\nmax of the same data    :", fresh.max)
assert np.allclose(r.dataSmooth, fresh.dataSmooth), "dataSmooth is stale after EnergyResult.add"
