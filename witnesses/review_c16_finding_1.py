"""C16 review finding 1: K__Result.add (in-place element-wise sum) pairs the k-blocks of the two operands with zip().
Whether a sum object holds one merged block or several depends on whether `.data` was read before, so the result of
`add` depends on that history: silently wrong data (numpy broadcasting) or a ValueError."""
import sys
sys.path.insert(0, "/repo")
import numpy as np
from wannierberri.result import KBandResult
from wannierberri.symmetry.point_symmetry import transform_ident as T
rng = np.random.default_rng(0)
a, b, x = (KBandResult(rng.normal(size=(nk, 2)), T, T) for nk in (1, 3, 1))   # nk = 1, 3, 1; 2 bands, rank 0
expected = np.vstack([a.data + x.data, b.data + b.data])
r1, y1 = a + b, x + b                  # neither side merged
r1.add(y1)
r2, y2 = a + b, x + b
y2.data                                # reading .data merges the blocks of y2 - no change of its value
r2.add(y2)
print("blocks untouched : max error", np.abs(r1.data - expected).max())
print("other.data read  : max error", np.abs(r2.data - expected).max(), " nk", r2.nk, "(expected 4)")
assert np.abs(r1.data - expected).max() < 1e-12
assert r2.data.shape == expected.shape and np.abs(r2.data - expected).max() < 1e-12, "K__Result.add depends on whether .data was read before"
