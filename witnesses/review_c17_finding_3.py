"""C17 review finding 3: get_smoother documents mode=None as the default and as an available option ("mode == None: smear not
used"), i.e. no smoothing; it raises ValueError("Smoother mode not recognized.") instead of returning a VoidSmoother as it
does for every other "nothing to smooth" input (energy None, smear None / <= 0, one energy)."""
import sys
sys.path.insert(0, "/repo")
import numpy as np
from wannierberri.smoother import get_smoother, VoidSmoother
E = np.linspace(0, 1, 11)
print(get_smoother(E, None), get_smoother(None, 0.1, "Gaussian"), get_smoother(E[:1], 0.1, "Gaussian"))
for args in ((E, 0.1), (E, 0.1, None)):
    try:
        s = get_smoother(*args)
    except ValueError as e:
        raise AssertionError(f"get_smoother(E, 0.1{', None' if len(args) == 3 else ''}) raised ValueError: {e}")
    assert isinstance(s, VoidSmoother)
