"""C32 review finding 2 (outside the statement of C32, which is about band energies): a system imported from PythTB / TBmodels loses
`force_internal_terms_only` (and `spinor`) in to_npz -> from_npz (not among System_R.essential_properties).  The bands survive, but
the Berry curvature of the re-loaded system cannot be evaluated any more: ValueError "'AA' are not set in the system".
Run: /venv/bin/python review_c32_finding_2.py  (VERIF_REPO selects the tree)"""
import os, sys, tempfile, shutil, warnings
sys.path.insert(0, os.environ.get("VERIF_REPO", "/repo"))
warnings.filterwarnings("ignore")
import wannierberri as wb
from wannierberri import models
from wannierberri.system import System_R
s = System_R.from_pythtb(models.KaneMele_ptb("odd"))
k = (0.1, 0.2, 0.0)
print("as imported :", wb.evaluate_k(s, k=k, quantities=["berry_curvature"])[0], s.force_internal_terms_only, s.spinor)
d = tempfile.mkdtemp()
try:
    s.to_npz(os.path.join(d, "s"))
    s2 = System_R.from_npz(os.path.join(d, "s"))
finally:
    shutil.rmtree(d)
print("re-loaded   : force_internal_terms_only =", s2.force_internal_terms_only, " spinor =", s2.spinor)
try:
    print("re-loaded   :", wb.evaluate_k(s2, k=k, quantities=["berry_curvature"])[0])
    print("OK")
except ValueError as e:
    print("re-loaded   : FAILS with ValueError:", str(e)[:90])
    sys.exit(1)
