"""Side observations of the widening review of c19 (NOT violations of C19; unchanged /repo).
1. WannierData.select_bands(selected_bands=<boolean mask>) - documented form "array((NB,), dtype=bool)" - raises AssertionError
   unless every band is selected: the shape assertion is made after np.where has turned the mask into indices.
2. AMN.spin_order_block_to_interlace / spin_order_interlace_to_block raise KeyError for every object (self.data is a dict)."""
import sys
import numpy as np
sys.path.insert(0, "/repo")
from wannierberri.w90files import EIG, AMN, WannierData, CheckPoint   # noqa: E402

NK, NB, NW = 2, 3, 2
k = np.array([[0, 0, 0], [0.5, 0, 0]])
wd = WannierData()
wd.set_file("chk", CheckPoint(real_lattice=np.eye(3), num_wann=NW, num_bands=NB, kpt_red=k, mp_grid=[2, 1, 1]))
wd.set_file("eig", EIG(data=[np.arange(NB) * 1.0 for _ in range(NK)]))
try:
    print("selected:", wd.select_bands(selected_bands=np.array([True, False, True])))
except AssertionError as e:
    print("1. select_bands(bool mask) -> AssertionError:", e)
amn = AMN(data=[np.ones((NB, NW), dtype=complex) for _ in range(NK)])
try:
    amn.spin_order_block_to_interlace()
    print("ok")
except KeyError as e:
    print("2. AMN.spin_order_block_to_interlace -> KeyError:", e)
