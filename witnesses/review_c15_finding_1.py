"""Side finding of the widening review of c15 (not property C15 itself; met in the history step
'take bands out of the data set, then wannierise').

WannierData.select_bands documents `selected_bands : array((NB,), dtype=bool) or list of int`, but the boolean form fails
for every mask that drops a band: the mask is converted to indices first and the shape check `(NB,)` meant for the mask
is applied to the index array afterwards (w90files/wandata.py, select_bands).  The equivalent list of indices works.

Run:  PYTHONPATH=/repo /venv/bin/python /verif/witnesses/review_c15_finding_1.py   (exit 1 = defect present)
"""
import sys
import numpy as np
from wannierberri.w90files import WannierData, EIG

NB, NK = 4, 2
E = [np.sort(np.random.default_rng(ik).normal(size=NB)) for ik in range(NK)]
mask = np.array([True, True, True, False])              # keep the three lowest bands


def fresh():
    wd = WannierData()
    wd.set_file("eig", EIG([e.copy() for e in E]))
    return wd


wd = fresh()
wd.select_bands(selected_bands=[0, 1, 2])
print("list of indices : kept", wd.eig.NB, "bands")
wd = fresh()
try:
    wd.select_bands(selected_bands=mask)
    print("boolean mask    : kept", wd.eig.NB, "bands")
    ok = wd.eig.NB == 3
except AssertionError as e:
    print("boolean mask    : AssertionError:", e)
    ok = False
sys.exit(0 if ok else 1)
