"""C17 review finding 2: a smoother built on a *descending* evenly spaced grid (documented requirement: "Must be evenly
spaced") returns NaN (or raises "shape-mismatch for sum"): dE = E[1]-E[0] < 0 makes NE1 = int(maxdE*smear/dE) negative, the
kernel array empty and every row 0/0.  The kernel is even, so the result must be the reversed result of the ascending grid; in
particular a constant must stay the same constant."""
import sys
import warnings
sys.path.insert(0, "/repo")
import numpy as np
from wannierberri.smoother import GaussianSmoother, FermiDiracSmoother
warnings.simplefilter("ignore")
E = np.linspace(0, 1, 11)
A = np.random.default_rng(0).normal(size=11)
for cls, par in ((GaussianSmoother, 0.2), (FermiDiracSmoother, 1200)):
    up, down = cls(E, par), cls(E[::-1].copy(), par)
    print(cls.__name__, "NE1 ascending / descending:", up.NE1, down.NE1)
    print("   constant 1 ->", down(np.ones(11))[:4], "...")
    out = down(A[::-1].copy())[::-1]
    assert np.allclose(out, up(A)), f"{cls.__name__} on a descending grid: {out[:3]} instead of {up(A)[:3]}"
