"""Side observation of the C22 widening review (NOT covered by the statement of C22, which holds for the remaining
entries): BKVectors.select_kpoints (inherited from W90_file) removes k-points from `neighbours` and `G` but leaves
`kptirr` as it was, so the restricted object saves a file that its own from_npz refuses to load.
Run: /venv/bin/python /verif/.work/review_c22_finding_1.py   (uses /repo)"""
import sys, tempfile, os
sys.path.insert(0, "/repo")
import numpy as np
from wannierberri.w90files.bkvectors import BKVectors

recip = 2 * np.pi * np.linalg.inv(np.diag([3.0, 3.0, 3.0])).T
kint = np.array([(i, j, k) for i in range(2) for j in range(2) for k in range(2)])
bk = BKVectors.from_kpoints(recip_lattice=recip, mp_grid=np.array([2, 2, 2]), kpoints_red=kint / 2)
ret = bk.select_kpoints([0, 3])
print("select_kpoints returned", ret, "(documented: self)")
print("keys of G:", sorted(bk.G), " kptirr:", bk.kptirr.tolist())
path = os.path.join(tempfile.mkdtemp(), "sel.npz")
bk.to_npz(path)
try:
    BKVectors.from_npz(path)
    print("reload ok")
except AssertionError as e:
    print("from_npz of the file just written fails: AssertionError:", e)
    sys.exit(1)
