"""C20 / System_R.symmetrize2(cutoff=...): the documented cutoff for small matrix elements makes symmetrize2 fail with an AssertionError
('some R vectors were not set') as soon as a whole star of (R, atom a, atom b) blocks lies below the cutoff in EVERY matrix - which is the
purpose of the option.  SymWann.average_XX_block(mode='single') removes an R vector from its to-do list only when a matrix block was found.
Run: /venv/bin/python review_c20_finding_1.py   (uses /repo unless VERIF_REPO is set)"""
import os, sys, io, contextlib
sys.path.insert(0, os.environ.get("VERIF_REPO", "/repo"))
import numpy as np
import wannierberri as wb
from wannierberri.system.system_R import System_R
from wannierberri.fourier.rvectors import Rvectors

lattice = np.eye(3) * 3.0                                   # simple cubic, one atom, one s orbital
iR = np.array([[0, 0, 0]] + [s * np.eye(3, dtype=int)[i] for i in range(3) for s in (1, -1)] +
              [s * np.array(v) for v in ([1, 1, 0], [1, 0, 1], [0, 1, 1], [1, -1, 0], [1, 0, -1], [0, 1, -1]) for s in (1, -1)])
dist = np.linalg.norm(iR, axis=1)
Ham = np.where(dist == 0, 1.0, np.where(dist == 1, -0.5, 0.01))[:, None, None].astype(complex)   # 2nd neighbours: 0.01


def model():
    s = System_R(silent=True, periodic=(True, True, True))
    s.set_real_lattice(lattice)
    s.num_wann = 1
    s.set_wannier_centers(wannier_centers_red=np.zeros((1, 3)))
    s.rvec = Rvectors(lattice=s.real_lattice, iRvec=iR, shifts_left_red=s.wannier_centers_red)
    s.set_R_mat("Ham", Ham.copy())
    s.do_at_end_of_init()
    return s


with contextlib.redirect_stdout(io.StringIO()):
    symmetrizer = model().symmetrize(proj=["A:s"], positions=[[0, 0, 0]], atom_name=["A"], soc=False, magmom=None)
for cutoff in (-1, 0.001, 0.05):
    s = model()
    try:
        with contextlib.redirect_stdout(io.StringIO()):
            s.symmetrize2(symmetrizer, cutoff=cutoff)
        print(f"cutoff={cutoff}: ok, {s.rvec.nRvec} R vectors, max|Ham| on 2nd neighbours "
              f"{np.abs(s.get_R_mat('Ham')[np.linalg.norm(s.rvec.iRvec, axis=1) > 1.1]).max():.3g}")
    except AssertionError as e:
        print(f"cutoff={cutoff}: AssertionError: {str(e)[:110]} ...   <-- expected: 2nd-neighbour hoppings (0.01) dropped, model still symmetric")
