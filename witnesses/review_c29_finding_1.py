"""C29 widening review, finding 1: a Path given its breaks as a tuple cannot compute its path coordinate.

Path(k_list=..., breaks=...) stores `breaks` as given; getKline() does `k[self.breaks] = 0.0`.  With a list or an
array that zeroes the increments across the breaks; with a tuple of two or more indices numpy reads it as a
multi-dimensional index -> IndexError; with a tuple of ONE index it works.  get_refined() and `i in self.breaks`
accept the tuple, so the path is built and refined without complaint and only getKline / plot_path_fat fail.
Run:  /venv/bin/python /verif/witnesses/review_c29_finding_1.py   (uses $VERIF_REPO, default /repo)
"""
import os
import sys
sys.path.insert(0, os.environ.get("VERIF_REPO", "/repo"))
import numpy as np
from wannierberri.grid import Path

K = [[0, 0, 0], [0.25, 0, 0], [0.5, 0, 0], [0, 0.5, 0], [0, 0.5, 0.25], [0.5, 0.5, 0.5], [0.25, 0.25, 0.25]]
for breaks in ([2, 4], np.array([2, 4]), (2,), (2, 4)):
    p = Path(real_lattice=np.eye(3) * 3.0, k_list=K, labels={0: "G", 2: "X", 3: "Y", 6: "L"}, breaks=breaks)
    print(f"breaks={breaks!r:18} refined breaks={p.get_refined(2).breaks}", end="  ")
    try:
        print("getKline ->", np.round(p.getKline(), 3))
    except IndexError as e:
        print("getKline raises IndexError:", e)
