"""C30 finding 3 (minor): TABresult.find_grid breaks when a direction holds a single point whose coordinate carries negative
rounding noise: the constructor stores k % 1 = 1 - eps, find_grid appends 1 and takes 1/max-gap = 1/eps.
to_grid itself accepts deviations up to 1e-5.
run: /venv/bin/python review_c30_finding_3.py   (uses /repo, or $VERIF_REPO)"""
import os, sys
sys.path.insert(0, os.environ.get("VERIF_REPO", "/repo"))
import numpy as np
from wannierberri.result import KBandResult, TABresult

pts = np.array([(i / 4, 0., -1e-12) for i in range(4)])
r = TABresult(pts, recip_lattice=np.eye(3), results={"Energy": KBandResult(np.arange(4.)[:, None])})
g = r.find_grid
print("find_grid:", g, " expected [4 1 1]")
sys.exit(0 if tuple(g) == (4, 1, 1) else 1)
