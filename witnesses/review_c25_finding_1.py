"""C25 review, finding 1: SystemSOC.swap_spin_channels() leaves stale centres behind.

swap_spin_channels exchanges wannier_centers_cart[::2] and [1::2] in place, but neither clears the cached
`wannier_centers_red` nor rebuilds `self.rvec` (whose shifts_left_red were taken from the old centres).  When the two spin
channels have different Wannier centres, everything that uses the centres of the SOC term afterwards (dH/dk = Xbar('Ham',1) of
Data_K_soc, and the system returned by get_system_R()) is wrong; H(k) itself and SS(k) are not affected.
Expected: identical to a SystemSOC built directly as SystemSOC(system_down, system_up) with the exchanged SOC matrices.
Run:  /venv/bin/python /verif/witnesses/review_c25_finding_1.py
"""
import sys
sys.path.insert(0, "/verif")
sys.path.insert(0, "/verif/checks")
from vlib import env, gen_soc
env.import_wb()
import numpy as np
import c25

rng = np.random.default_rng(0)
system, info = gen_soc.soc_system(rng, nspin=2, path="direct", same_centers=False, num_wann=2)
with env.quiet():
    system.swap_spin_channels()
    system.set_soc_axis(theta=info["theta"], phi=info["phi"], alpha_soc=info["alpha_soc"])
    info2 = c25.swap_info(info)
    NK, dK = (2, 1, 3), np.array([0.1, 0.3, 0.05])
    d, kall = c25.make_data_k(system, NK, dK)
    V = c25.wannier_gauge(d, d.Xbar("Ham", 1))
print("cached wannier_centers_red == cart @ inv(lattice):",
      np.allclose(system.wannier_centers_red, system.wannier_centers_cart @ np.linalg.inv(system.real_lattice)))
print("rvec.shifts_left_red consistent with the centres :",
      np.allclose(system.rvec.shifts_left_red, system.wannier_centers_cart @ np.linalg.inv(system.real_lattice)))
print("max |H(k) - reference|      =", np.abs(d.HH_K - gen_soc.soc_H_ref(info2, kall)).max())
print("max |dH/dk - reference|     =", np.abs(V - c25.soc_dH_ref(info2, kall)).max(), " (scale", np.abs(V).max(), ")")
