"""C16 review finding 3: a result constructed with the documented defaults transformTR=None / transformInv=None
cannot be saved: as_dict() calls self.transformTR.as_dict().  (from_npz / transform_from_dict do handle a stored None.)
Same for KBandResult."""
import sys, tempfile, os
sys.path.insert(0, "/repo")
import numpy as np
from wannierberri.result import EnergyResult, KBandResult
tmp = tempfile.mkdtemp()
E = np.linspace(0, 1, 5)
for res in (EnergyResult(E, np.arange(15.).reshape(5, 3)), KBandResult(np.arange(12.).reshape(2, 2, 3))):
    s = res + res                                   # arithmetic works with the defaults
    try:
        res.save(os.path.join(tmp, "x"))
        ld = type(res).from_npz(os.path.join(tmp, "x.npz"))
        assert np.array_equal(ld.data, res.data) and ld.transformTR is None
        print(type(res).__name__, "saved and loaded")
    except AttributeError as e:
        print(type(res).__name__, "save failed:", e)
        fail = True
assert not locals().get("fail"), "results with default transforms cannot be saved"
