"""C17 review finding 1: EnergyResult.set_smoother does not invalidate the cached_property dataSmooth.  A result whose smoothed
data were read once (dataSmooth, .max, savetxt) - e.g. a result loaded with from_npz, which carries no smoothers, looked at and
then given its smoothers - keeps the smoothed data of the OLD smoothers: dataSmooth, .max and the text file no longer are the
raw data convolved with the smoothers of the result."""
import sys
sys.path.insert(0, "/repo")
import numpy as np
from wannierberri.result import EnergyResult
from wannierberri.smoother import FermiDiracSmoother
E = np.linspace(0, 1, 11)
data = np.random.default_rng(0).normal(size=(11, 3))
S = FermiDiracSmoother(E, 1200)
r = EnergyResult([E], data.copy())              # as returned by EnergyResult.from_npz: no smoothers
print("max without smoothers:", r.max)          # fills the cache
r.set_smoother([S])
expected = S(data, axis=0)
print("dataSmooth unchanged by set_smoother:", np.array_equal(r.dataSmooth, data))
print("deviation from smoother(data):", np.abs(r.dataSmooth - expected).max())
assert np.allclose(r.dataSmooth, expected), "dataSmooth is stale after EnergyResult.set_smoother"
