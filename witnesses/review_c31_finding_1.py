"""Side finding of the widening review of c31 (NOT a violation of C31 itself; kept out of checks/c31.py).

run(..., parameters_K=dict(Emin=..) / dict(Emax=..)) - the energy window of Data_K that drops bands / k-points outside
[Emin, Emax] - raises ValueError in Data_K._rotate as soon as the window really removes a band (or a k-point); with 2 bands cut to 1
the size-1 axis is broadcast silently instead.
Same failure for SystemKP (Data_K_k.Xbar, anchored file of C31) and for a System_R, with analytic or numerical
derivatives.  Mechanism: Data_K.E_K stores  self._UU = UU[self.select_K, :][:, self.select_B]  (rows = Wannier index are
cut instead of the band index, data_K/data_K.py:217) while Xbar builds X for all k and all Wannier functions.

Run from a scratch directory (run() writes result files):  cd /tmp && /venv/bin/python /verif/witnesses/review_c31_finding_1.py
"""
import sys
import numpy as np
sys.path.insert(0, "/repo")
import wannierberri as wb  # noqa: E402
from wannierberri.system import SystemKP  # noqa: E402

sz = np.diag([2.0, 0.0, -2.0])
sx = np.array([[0, 1.0, 0], [1.0, 0, 1.0], [0, 1.0, 0]])


def ham(k):
    return sz * (0.5 + k[0] ** 2 + k[1] ** 2 + k[2] ** 2) + sx * 0.1 * k[0]


system = SystemKP(Ham=ham, kmax=1.0)          # three bands: below -1, around 0, above +1
grid = wb.Grid(system, NKdiv=3, NKFFT=1, use_symmetry=False)
calc = {"ohmic": wb.calculators.static.Ohmic_FermiSea(Efermi=np.linspace(-1, 1, 5))}
for window in (dict(Emin=-100, Emax=100), dict(Emin=-0.5, Emax=100)):
    try:
        res = wb.run(system, grid=grid, calculators=calc, parallel=False, adpt_num_iter=0, parameters_K=window)
        print(window, "-> ok, max|sigma| =", abs(res.results["ohmic"].data).max())
    except Exception as err:  # expected on /repo for the second window
        print(window, "-> raised", type(err).__name__, err)
