"""C13 review, finding 1: select_bands as a tuple (the form used by the repository's own tests/test_calc.py::test_band_resolved)
or a list works only while every selected band group inside the Fermi window has numpy-integer borders; a group that starts at
band 0 or ends at the last band (borders are the Python ints 0 / len(E) in tetrahedron.get_borders) raises TypeError in
utility.weight_select_bands (`select_bands >= ib1`).  An ndarray works everywhere.   usage: python review_c13_finding_1.py [repo]"""
import sys
sys.path.insert(0, sys.argv[1] if len(sys.argv) > 1 else "/repo")
import numpy as np
import wannierberri as wb
from wannierberri.fourier.rvectors import Rvectors
from wannierberri.calculators.static import DOS

s = wb.System_R(silent=True, periodic=(True, True, True))          # 3 well separated cosine bands around -2, 0, +2 eV
s.set_real_lattice(np.diag([2.0, 2.5, 3.0])); s.num_wann = 3
s.set_wannier_centers(wannier_centers_red=np.zeros((3, 3)))
iR = np.array([[0, 0, 0], [1, 0, 0], [-1, 0, 0]])
s.rvec = Rvectors(lattice=s.real_lattice, iRvec=iR, shifts_left_red=s.wannier_centers_red)
s.set_R_mat("Ham", np.array([np.diag([-2.0, 0, 2.0]), 0.2 * np.eye(3), 0.2 * np.eye(3)], dtype=complex))
s.do_at_end_of_init()
grid = wb.Grid(s, NKdiv=1, NKFFT=(8, 1, 1))
Ef = np.linspace(-3, 3, 25)
for band in (1, 0, 2):
    for form in (np.array([band]), (band,), [band]):
        try:
            r = wb.run(s, grid, {"d": DOS(Efermi=Ef, select_bands=form, save_mode="")}, parallel=False, print_progress_step_time=1e9)
            print(f"select_bands={form!r:11}: ok, integral of DOS = {r.results['d'].data.sum() * (Ef[1] - Ef[0]):.3f}")
        except TypeError as e:
            print(f"select_bands={form!r:11}: TypeError: {e}")
