"""Side observation (history class of C24): WannierData.select_bands documents `selected_bands : array((NB,), dtype=bool) or list of
int`, but the boolean form is converted to indices *before* its shape is asserted to be (NB,) -> AssertionError for every mask
that does not select all bands (wandata.py: `selected_bands = np.where(selected_bands)[0]` followed by the shape assert)."""
import numpy as np, wannierberri as wb
from wannierberri.w90files.eig import EIG
wd = wb.WannierData()
wd.set_file("eig", EIG(data=[np.arange(5.0), np.arange(5.0) + 0.1]))
print("list of int      ->", wd.select_bands(selected_bands=[0, 2, 3]))
wd = wb.WannierData()
wd.set_file("eig", EIG(data=[np.arange(5.0), np.arange(5.0) + 0.1]))
try:
    print("boolean mask     ->", wd.select_bands(selected_bands=np.array([True, False, True, True, False])))
except AssertionError as e:
    print("boolean mask     -> AssertionError:", e)
