#!/usr/bin/env python3
"""MANIFEST.setup_cmd: nothing to compile (pure Python).  Verifies that the interpreter and the
repository import offline, warms the numba cache, and (optionally) installs icontract from the
offline wheelhouse next to the framework (not required by any check)."""
import os
import subprocess
import sys

ROOT = os.path.dirname(os.path.dirname(os.path.abspath(__file__)))
sys.path.insert(0, ROOT)
os.makedirs(os.path.join(ROOT, ".work"), exist_ok=True)
os.makedirs(os.path.join(ROOT, "evidence"), exist_ok=True)
from vlib import env  # noqa: E402

wb = env.import_wb()
print("wannierberri imported from", os.path.dirname(wb.__file__))
deps = os.path.join(ROOT, ".deps")
if not os.path.exists(os.path.join(deps, "icontract")) and os.path.isdir("/opt/veriftools/wheels"):
    r = subprocess.run([sys.executable, "-m", "pip", "install", "--no-index", "--find-links", "/opt/veriftools/wheels",
                        "--target", deps, "-q", "icontract"], capture_output=True, text=True)
    print("icontract install:", "ok" if r.returncode == 0 else "skipped (" + r.stderr.strip()[-200:] + ")")
print("setup done")
