#!/bin/bash
# usage: mkseed2.sh C07 ...   second-round seed: /tmp/seed_<id>b with a hint to avoid the first-round location
for id in "$@"; do
  tag=${id}b
  WT=/tmp/seed_$tag; OUT=/tmp/seed_${tag}_out
  rm -rf $WT $OUT; mkdir -p $WT $OUT
  git -C /repo archive HEAD | tar -x -C $WT
  rm -rf $WT/docs $WT/examples
  ( cd $WT && git init -q && git add -A >/dev/null 2>&1 && git -c user.name=x -c user.email=x@x commit -qm "snapshot" )
  cp /tmp/seedwork/$id.txt $OUT/property.txt
  /venv/bin/python - "$id" "$tag" <<'PY'
import sys,json,glob,os
id,tag=sys.argv[1:3]
t=open('/tmp/seedwork/prompt_C24.txt').read()
a=t.index('-----\n')+6; b=t.index('-----\n',a)
t=t[:a]+open(f'/tmp/seedwork/{id}.txt').read().rstrip('\n')+'\n\n'+t[b:]
t=t.replace('C24',tag)
prev=[]
for d in sorted(glob.glob(f'/verif/seeded/{id}*')):
    m=json.load(open(os.path.join(d,'meta.json')))
    prev.append('  - '+m['what'])
hint=("\nAn earlier round of this study already used the following change(s) for this property; choose a DIFFERENT function (preferably a different file among the anchors or the code they call) and a different kind of trigger:\n"+"\n".join(prev)+"\n")
t=t.replace("Read the anchored source files first", hint+"\nRead the anchored source files first")
open(f'/tmp/seedwork/prompt_{tag}.txt','w').write(t)
PY
done
