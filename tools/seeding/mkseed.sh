#!/bin/bash
# usage: mkseed.sh C04 ...   creates /tmp/seed_<id> (archive checkout, own git repo, one commit) + prompt
for id in "$@"; do
  WT=/tmp/seed_$id; OUT=/tmp/seed_${id}_out
  rm -rf $WT $OUT; mkdir -p $WT $OUT
  git -C /repo archive HEAD | tar -x -C $WT
  rm -rf $WT/docs $WT/examples
  ( cd $WT && git init -q && git add -A >/dev/null 2>&1 && git -c user.name=x -c user.email=x@x commit -qm "snapshot" )
  cp /tmp/seedwork/$id.txt $OUT/property.txt
  /venv/bin/python - "$id" <<'PY'
import sys,re
id=sys.argv[1]
t=open('/tmp/seedwork/prompt_C24.txt').read()
a=t.index('-----\n')+6; b=t.index('-----\n',a)
t=t[:a]+open(f'/tmp/seedwork/{id}.txt').read().rstrip('\n')+'\n\n'+t[b:]
t=t.replace('C24',id)
open(f'/tmp/seedwork/prompt_{id}.txt','w').write(t)
PY
done
