#!/bin/bash
# usage: tools/mutant_test.sh <patch-file> <check-id e.g. c06> [extra check args...]
# applies the patch (use a leading "-R:" on the patch name for a reverse patch, e.g. -R:file.patch) to a scratch copy of
# /repo outside /repo and /verif, runs the check against it, removes the copy.  Expected: exit 1 + VIOLATION.
set -u
PATCH="$1"; CHECK="$2"; shift 2
REV=""
if [[ "$PATCH" == -R:* ]]; then REV="-R"; PATCH="${PATCH#-R:}"; fi
PATCH="$(readlink -f "$PATCH")"
D=$(mktemp -d /tmp/mut_${CHECK}_XXXX)
rsync -a --exclude .git --exclude tests --exclude docs --exclude examples --exclude _trash /repo/ "$D/"
( cd "$D" && patch -p1 $REV --no-backup-if-mismatch -s < "$PATCH" ) || { echo "PATCH FAILED"; rm -rf "$D"; exit 3; }
cd /verif
VERIF_REPO="$D" /venv/bin/python checks/${CHECK}.py --tier quick "$@" > "$D.log" 2>&1
rc=$?
grep -E "VIOLATION|INCONCLUSIVE|HELD|violation mechanism" "$D.log" | head -6
echo "exit=$rc  ($(basename $PATCH) $REV on $CHECK)"
rm -rf "$D" "$D.log"
# evidence file was rewritten by the mutant run: caller should re-run the check on /repo afterwards
exit $rc
