#!/bin/bash
# usage: tools/seeded_all.sh   - re-evaluates every kept seeded change (seeded/<id>[_b]) against the check that is recorded to catch it
cd "$(dirname "$0")/.."
for d in seeded/*/; do
  id=$(basename "$d"); p=${id%%_*}; c=$(echo "$p" | tr 'A-Z' 'a-z')
  case "$id" in C07_b) c=c09;; C03_b) c=c07;; esac
  out=$(tools/seeded_eval.sh "$d" $c 2>&1 | tr '\n' ' ' | cut -c1-260)
  echo "$id [$c]: $out"
done
