#!/venv/bin/python
"""usage: tools/record_seed.py <ID> <srcdir> <what> <needs> <detection> [tests-note]
copies patch.diff, demo.py, notes.md from <srcdir> into seeded/<ID>/ and writes meta.json"""
import json, os, shutil, subprocess, sys
id_, src, what, needs, det = sys.argv[1:6]
tests = sys.argv[6] if len(sys.argv) > 6 else "agent ran the related test files with the change: no new failures"
d = os.path.join(os.path.dirname(os.path.dirname(os.path.abspath(__file__))), "seeded", id_)
os.makedirs(d, exist_ok=True)
for f in ("patch.diff", "demo.py", "notes.md"):
    shutil.copy(os.path.join(src, f), d)
base = subprocess.check_output(["git", "-C", "/repo", "rev-parse", "--short=8", "HEAD"], text=True).strip()
meta = dict(property=id_.split("_")[0], base_commit=base, what=what, needs=needs,
            demo="demo.py: exit !=0 with the change, exit 0 on /repo (PYTHONPATH selects the tree)",
            confirmed=["patch applies to /repo HEAD", "demo exit !=0 with change / 0 on /repo (tools/seeded_eval.sh)", tests],
            detection=dict(now=det))
json.dump(meta, open(os.path.join(d, "meta.json"), "w"), indent=1)
print("recorded", d)
