#!/usr/bin/env python3
"""Regenerate /verif/MANIFEST.json from the table below (keeps the manifest valid at all times).
A property is *claimed* only if it is listed in READY and checks/cNN.py exists; all others go to
not_applicable with the reason 'check not built yet' (or a specific reason in NOT_APPLICABLE)."""
import json
import os
import subprocess

ROOT = os.path.dirname(os.path.dirname(os.path.abspath(__file__)))
PY = "/venv/bin/python"

# id: (level category, technique, level text, level note, design ref)
TABLE = {
    "C01": ("exploration", "reference-oracle monitoring (explicit Fourier sum) + in-situ invariants on Rvectors.set_Rvec",
            "q->R->k round trip, X(-R)=X(R)^dagger and replica weights checked against an explicit-sum oracle on generated lattices/meshes/centres incl. Wigner-Seitz boundary replicas",
            "oracle = harness-side explicit Fourier sum; numpy", "4/C01"),
    "C02": ("exploration", "reference-oracle + differential monitoring of the four Fourier back ends",
            "every back end (fftw, numpy, slow, k-list) and Data_K_R compared with an explicit sum over R for der 0-3 on generated models and FFT boxes, Hermiticity on un-forced output",
            "oracle = harness-side explicit Fourier sum (vlib/oracles.py)", "4/C02"),
    "C03": ("exploration", "differential monitoring of run() over all grid factorisations and FFT libraries",
            "run() results for every factorisation N=NKdiv*NKFFT and both FFT libraries must coincide for a basket of static/dynamic/tabulating calculators on generated models",
            "differential: no external reference; tie guards on Fermi bins", "4/C03"),
    "C04": ("exploration", "metamorphic monitoring (k -> k+G, random gauge in degenerate subspaces)",
            "evaluate_k at k and k+G and run()/evaluate_k with and without random_gauge on models with exact degeneracies; the monitor asserts the random rotation was really applied",
            "metamorphic relation; unitary_group.rvs wrapper counts applied rotations", "4/C04"),
    "C05": ("exploration", "metamorphic monitoring (basis permutation / co-centred unitary rotation)",
            "run() and evaluate_k before and after System_R.reorder and after a block-diagonal unitary among co-centred WFs",
            "metamorphic relation; rotation applied by the harness to all real-space matrices", "4/C05"),
    "C06": ("fault_enumeration", "invariant monitors at hooks (get_K_list, divide, exclude_equiv_points, absorb) + brute-force orbit-cover oracle over adversarial refinement histories",
            "weights >=0, sum 1, exactly-once tiling of the finest raster by symmetry images of alive cells after every refinement step; tetrahedra tile the cell (Monte-Carlo point location) and divide conserves weight/volume",
            "oracle = brute-force rasterisation with the group acting on full-BZ k; stub calculator lets the adversary choose refined points", "4/C06"),
    "C07": ("exploration", "differential monitoring: irreducible+symmetrised vs full unsymmetrised run on systems symmetric by construction",
            "run(use_irred_kpt=True) vs run(use_irred_kpt=False, symmetrize=False) for every calculator class that accepts the system, tolerance floor from a generic twin",
            "systems are made symmetric by the harness independently of the repository's symmetriser (bond-length-only hoppings)", "4/C07"),
    "C08": ("exploration", "metamorphic monitoring of every top-level formula at k and -k on TR / inversion symmetric models",
            "value at -k equals the declared Transform applied to the value at k for all formulas enumerated from the calculators at run time",
            "TR / inversion symmetric models built by the harness; Transform.__call__ is trusted as the declaration", "4/C08"),
    "C09": ("exploration", "reference-oracle monitoring of group axioms and tensor action",
            "closure, identity, inverses, lattice invariance, group-action law of transform_tensor, idempotent symmetrisation, star uniqueness for all 32 point groups and magnetic variants",
            "oracle = explicit einsum with the improper matrix; known group orders", "4/C09"),
    "C10": ("fault_enumeration", "history monitor on run(): running result recomputed from the live K list after every iteration",
            "after every refinement iteration the returned/saved result equals sum_K factor_K*result_K recomputed from scratch, exactly-once set_result, for memory/restart/dump storage modes",
            "per-K results recomputed by the harness with the same calculators; adversarial refinement via stub calculators too", "4/C10"),
    "C11": ("fault_enumeration", "history + differential monitoring: uninterrupted run vs every composition of restart segments under injected directory-listing orders",
            "exhaustive over compositions of n<=3 (quick) / n<=5 (thorough) iterations, both storage modes, listing orders injected through run_grid.glob.glob",
            "fault injection on the environment (glob order), not on the code", "4/C11"),
    "C12": ("fault_enumeration", "schedule enumeration: the real run_grid.process loop driven by a deterministic stand-in for ray with adversary-chosen completion orders",
            "exactly-once collection and serial-equal results for all completion permutations (<=5 K-points exhaustive) and random schedules incl. non-nested ray.wait ready sets; path tabulation order",
            "stand-in scheduler reproduces ray.wait semantics measured on ray 2.48; real ray not enumerated", "4/C12"),
    "C13": ("exploration", "reference-oracle monitoring of Fermi-sea semantics + exact finite-difference identity + k-resolved sum",
            "CumDOS/Spin/AHC vs an independent sea count from independently diagonalised H(k); fder=n equals n-th central difference; k-resolved average equals unresolved",
            "independent diagonalisation with numpy LAPACK; tie guards on bins", "4/C13"),
    "C14": ("exploration", "exact-arithmetic reference oracle (fractions) + in-situ monitor on weights_tetra",
            "weights_tetra vs exact rational volume fraction with rigorous horizontal bracket, incl. coincident corners, all corner orders, derivatives; CumDOS limits with tetra=True",
            "exact rational arithmetic (python fractions)", "4/C14"),
    "C15": ("exploration", "reference-oracle monitoring (connected components of gaps) of band grouping and window selection",
            "blocks = connected components; window selection is a union of whole multiplets for both include_degen modes; tabulated values equal inside blocks",
            "oracle = 10-line component finder", "4/C15"),
    "C16": ("exploration", "reference-oracle monitoring (numpy on .data) of result algebra and save/load round trip",
            "+,-,* element-wise (k-union for band-resolved), Void neutral on both sides, transform distributes over +, npz round trip",
            "numpy as the sequential model", "4/C16"),
    "C17": ("exploration", "reference-oracle monitoring: dense-matrix convolution vs smoothers, composition over axes",
            "dataSmooth equals composing each axis smoother in any order; smoothers linear, constant-preserving, axis-local",
            "independent dense kernel implementation", "4/C17"),
    "C18": ("exploration", "metamorphic monitoring (save -> load) of npz / tb / hr formats",
            "lattice, centres, R set, matrices (to printed precision), point group, bands and Berry curvature reproduced for odd and even num_wann",
            "tolerance tied to the documented print format", "4/C18"),
    "C19": ("exploration", "metamorphic monitoring (write -> read) of Wannier90 file objects",
            "EIG/AMN/MMN text round trip and npz round trip of every constructible SavableNPZ subclass and WannierData",
            "objects built from random arrays; readers with npar=1", "4/C19"),
    "C20": ("exploration", "metamorphic monitoring of real-space symmetrisation (symmetry, Hermiticity, centre mapping, idempotence)",
            "after symmetrize: E(gk)=E(k), Berry curvature/spin transform, Hermitian matrices, idempotent, on consistent projection sets",
            "space group from irrep/spglib; consistent-projection filter", "4/C20"),
    "C21": ("exploration", "reference-oracle monitoring of orbital rotation matrices and Dwann",
            "orthogonality, identity, homomorphism for s,p,d,f and hybrids on their invariant domain; Dwann unitary and maps centres",
            "full-shell matrices checked first, hybrids judged on invariant subspaces only", "4/C21"),
    "C22": ("exploration", "reference-oracle monitoring of b-vector completeness, shell integrity and neighbour arithmetic",
            "B1 relation, +-b closure, whole shells (brute-force), k+b=k_nb+G over the Bravais catalogue and random lattices",
            "brute-force shell enumeration in the harness", "4/C22"),
    "C23": ("exploration", "reference-oracle monitoring of mesh detection",
            "detection returns the generated mesh for shuffled/rounded/shifted inputs; incomplete or duplicated meshes rejected",
            "generated meshes are the ground truth", "4/C23"),
    "C24": ("exploration", "invariant monitoring of wannierise output (isometry, frozen span, outer-window zero weight) + in-situ window monitor",
            "V^dagger V = 1, frozen states in span, zero rows outside the outer window on synthetic W90 data incl. windows cutting multiplets",
            "synthetic ab-initio data generated by the harness", "4/C24"),
    "C25": ("exploration", "reference-oracle + differential monitoring of spin doubling / SOC assembly / Pauli rotation",
            "doubled spectrum, alpha_soc=0 spectrum = union, get_system_R equals Data_K_soc, Pauli algebra",
            "independent diagonalisation in the harness", "4/C25"),
    "C26": ("exploration", "metamorphic monitoring of system interpolation (endpoints, affinity)",
            "alpha=0/1 reproduce endpoints; matrices and centres affine in alpha",
            "evaluate_k on both sides", "4/C26"),
    "C27": ("exploration", "reference-oracle monitoring: sum rule at random k, Chern number vs Fukui-Hatsugai-Suzuki",
            "sum_n Omega_n = 0; AHC above all bands = 0; sigma_xy*c in e^2/h integer and equal to the link-method Chern number, convergence-based",
            "FHS link method in the harness; SI constants", "4/C27"),
    "C28": ("exploration", "differential monitoring with convergence-based verdict (sea vs surface forms)",
            "each documented sea/surface pair agrees within 5 % on the fine grid and does not diverge under refinement, FermiDirac smoothing",
            "discretisation-limited: bounded convergence test, inconclusive cases replaced", "4/C28"),
    "C29": ("exploration", "reference-oracle monitoring of path construction + per-point differential for tabulation",
            "nodes/labels/uniform sampling/refinement/Kline; row i of a path tabulation equals evaluate_k at point i for all batch sizes",
            "evaluate_k single-point as the reference", "4/C29"),
    "C30": ("exploration", "reference-oracle monitoring of grid tabulation and component extraction",
            "every grid point once in C order with its own values for all factorisations; get_component vs numpy",
            "evaluate_k single-point as the reference", "4/C30"),
    "C31": ("exploration", "reference-oracle monitoring with a-priori finite-difference error bounds",
            "numerical derivatives of polynomial k.p Hamiltonians vs analytic ones within the stencil's error bound; calculators with/without supplied derivatives",
            "polynomial models with exact derivatives", "4/C31"),
    "C32": ("exploration", "differential monitoring against the source tight-binding packages",
            "bands of imported PythTB/TBmodels models equal the packages' own eigenvalues; ptb and tbm builders agree",
            "pythtb 2.0.2 / tbmodels 1.4.3 as reference implementations", "4/C32"),
    "C33": ("exploration", "reference-oracle monitoring of corner energies",
            "E_K_corners_parallel/tetra vs independent diagonalisation at the corner k for R-space, SOC, k.p and phonon systems",
            "independent diagonalisation in the harness", "4/C33"),
}

# added after the seeded rounds and the widening reviews (DESIGN.md sections 13-14)
_H = "; generator classes added after the seeded rounds / widening reviews (DESIGN 13-14): "
HISTORY_NOTE = {
    "C01": _H + "sheared and Gaussian lattices with a certificate Wigner-Seitz oracle, one Rvectors object re-listed with the mesh in another order",
    "C02": _H + "API histories of the system, one Rvectors object re-used over libraries and grid shifts, returned arrays re-checked at the end",
    "C03": _H + "API histories of the system, calculator grouping options",
    "C04": _H + "2-4-fold degeneracies, calculator grouping options (degen_thresh, degen_Kramers), periodicity on degenerate models",
    "C05": _H + "API histories (rvec.copy, do_ws_dist, npz), cached-property invariant after reorder",
    "C06": _H + "grids specified by NK / length / NK+NKFFT incl. NK not a multiple of NKFFT on groups shearing the reduced axes",
    "C07": _H + "documented-equivalent symmetry flag sets of the irreducible run",
    "C09": _H + "generator strings that are products of non-commuting named operations",
    "C10": _H + "restart from an earlier iteration, tetrahedral grids, Klist_part",
    "C11": _H + "tetrahedral grids, Klist_part",
    "C12": _H + "tetrahedral grids",
    "C13": _H + "multiplets > 2 and chains, energy offsets, API histories, calculator objects re-used, degen_thresh / constant_factor / select_bands forms, 100+ Fermi levels, tetra differential relations",
    "C14": _H + "several Fermi arrays served by one TetraWeights object",
    "C16": _H + "argument forms, in-place add, transform twice, results re-read, save histories, smoothers through every operation",
    "C17": _H + "large grids and kernels, integer inputs, mode=None, descending grids, used objects, second set_smoother",
    "C18": _H + "systems used and spin-doubled / through API histories before saving, force_internal_terms_only systems",
    "C19": _H + "permuted dict order, npz reload before text write, reader options, equals controls, container histories, 100+ k-points and bands",
    "C20": _H + "subgroup symmetrisation through symmetrize2(use_symmetries_index), warm caches",
    "C21": _H + "neighbours of cached rotations on one shared rotator (1e-9..1e-2), N-fold power of a small rotation",
    "C22": _H + "kmesh_tol / search_supercell / bk_complete_tol varied, nearly symmetric cells, argument forms, nnkp / npz / reorder_mmn / select_kpoints histories, a shell on the search sphere",
    "C24": _H + "options of wannierise incl. sitesym=True, frozen_states forms, window edges on eigenvalues, 1-2 and 100+ k-points, second call / reloaded checkpoint",
    "C25": _H + "double_spin after API histories, cached-property invariant",
    "C26": _H + "cached-property invariant on interpolated systems",
    "C27": _H + "gap AHC through adaptive refinement of the full grid",
    "C29": _H + "API histories of the system, unnamed and odd labels",
    "C30": _H + "API histories of the system",
    "C32": _H + "derived source models, every importer entry point and keyword, spin oracle, system and import histories, builder argument forms",
    "C33": _H + "API histories of the system",
}

READY_FILE = os.path.join(ROOT, "tools", "ready.txt")


def main():
    ready = [l.strip() for l in open(READY_FILE) if l.strip() and not l.startswith("#")] if os.path.exists(READY_FILE) else []
    checks = []
    not_app = []
    for pid in sorted(TABLE):
        cat, tech, text, note, ref = TABLE[pid]
        note = note + HISTORY_NOTE.get(pid, "")
        script = f"checks/{pid.lower()}.py"
        if pid in ready and os.path.exists(os.path.join(ROOT, script)):
            checks.append(dict(
                property_id=pid,
                quick_cmd=f"{PY} {script} --tier quick",
                thorough_cmd=f"{PY} {script} --tier thorough",
                evidence_file=f"/verif/evidence/{pid}.json",
                replay_cmd_template=f"{PY} {script} --replay {{path}}",
                engine="vlib-harness",
                level_claimed=dict(category=cat, text=text, design_ref=f"DESIGN.md section {ref}"),
                level_note=note,
                technique=tech,
            ))
        else:
            not_app.append(dict(property_id=pid, reason="check not built yet in this session (runtime monitoring applies; see DESIGN.md section " + ref + ")"))
    try:
        commits = subprocess.run(["git", "-C", "/repo", "log", "--format=%h %s"], capture_output=True, text=True).stdout.splitlines()
    except Exception:
        commits = []
    manifest = dict(
        version=1,
        setup_cmd="/venv/bin/python tools/setup.py",
        hooks=dict(
            guard="WANNIERBERRI_VERIF",
            enable="no source hooks: all instrumentation is applied from the harness by wrapping module-level names that "
                   "the repository looks up at call time (run_grid.process, glob.glob, KpointBZ.set_result, weights_tetra, ...) "
                   "and through documented extension points (run(data_k_class=...)); checks import $VERIF_REPO (default /repo) in fresh processes",
            baseline_off_cmd="cd /repo && /venv/bin/python -m pytest -ra -q -p no:cacheprovider --timeout=900 --continue-on-collection-errors",
            source_commits=[],
            add_only=True,
        ),
        engines=[dict(name="vlib-harness", path="/verif/vlib/harness.py",
                      serves_properties=[c["property_id"] for c in checks],
                      kind_free_text="runtime monitoring: generated workloads on the real code in fresh sub-processes, "
                                     "reference/differential/metamorphic oracles, in-situ invariant and history monitors")],
        checks=checks,
        notes="Runtime-monitoring family only. Known findings / fixed defects: /verif/KNOWN_FINDINGS.txt. "
              "Exit 2 + 'INCONCLUSIVE' means the deciding monitor observed too little (never folded into held/violated).",
        not_applicable=not_app,
    )
    with open(os.path.join(ROOT, "MANIFEST.json"), "w") as f:
        json.dump(manifest, f, indent=1)
    print(f"MANIFEST.json: {len(checks)} checks claimed, {len(not_app)} not yet")


if __name__ == "__main__":
    main()
