#!/bin/bash
# Sensitivity self-test: every patch in mutants/ is applied to a scratch copy of $VERIF_REPO_SRC (default /repo) under /tmp, the quick tier
# of the check named by the patch prefix is run against it (VERIF_REPO), and the copy is deleted.  Expected: exit 1 + VIOLATION for each.
# usage: tools/selftest_mutants.sh [pattern]      e.g. tools/selftest_mutants.sh 'c06_*'
cd "$(dirname "$0")/.."
PAT=${1:-'*'}
SRC=${VERIF_REPO_SRC:-/repo}
ok=0; bad=0
for P in mutants/$PAT.patch; do
  [ -f "$P" ] || continue
  b=$(basename "$P"); c=${b%%_*}
  extra=""
  case "$b" in c07_OptCond_trans_ident.patch) extra="--cases 200";; esac
  D=$(mktemp -d /tmp/mutself_${c}_XXXX)
  rsync -a --exclude .git --exclude tests --exclude docs --exclude examples --exclude _trash "$SRC"/ "$D"/
  if ( cd "$D" && patch -p1 --dry-run -s < "$OLDPWD/$P" > /dev/null 2>&1 ); then ( cd "$D" && patch -p1 -s --no-backup-if-mismatch < "$OLDPWD/$P" );
  elif ( cd "$D" && patch -p1 -R --dry-run -s < "$OLDPWD/$P" > /dev/null 2>&1 ); then ( cd "$D" && patch -p1 -R -s --no-backup-if-mismatch < "$OLDPWD/$P" );
  else echo "$b: PATCH DOES NOT APPLY"; bad=$((bad+1)); rm -rf "$D"; continue; fi
  VERIF_REPO="$D" /venv/bin/python checks/$c.py --tier quick $extra > "$D.log" 2>&1; rc=$?
  if [ $rc -eq 1 ] && grep -q "^VIOLATION" "$D.log"; then ok=$((ok+1)); echo "$b: caught ($(grep -m1 'violation mechanism' "$D.log" | cut -c1-120))";
  else bad=$((bad+1)); echo "$b: NOT CAUGHT (exit $rc)"; fi
  rm -rf "$D" "$D.log"
done
echo "mutants caught: $ok   not caught: $bad"
[ $bad -eq 0 ]
