#!/usr/bin/env python3
"""usage: mkpatch.py <out.patch> <repo-relative-file> <old> <new> [<file2> <old2> <new2> ...]
creates a unified diff (paths a/.. b/..) replacing exactly one occurrence of old by new in each file of /repo"""
import difflib
import sys

out = sys.argv[1]
triples = sys.argv[2:]
assert len(triples) % 3 == 0
diff = []
for i in range(0, len(triples), 3):
    rel, old, new = triples[i:i + 3]
    old = old.encode().decode("unicode_escape")
    new = new.encode().decode("unicode_escape")
    src = open("/repo/" + rel).read()
    assert src.count(old) == 1, f"{rel}: {src.count(old)} occurrences of {old!r}"
    dst = src.replace(old, new)
    diff += list(difflib.unified_diff(src.splitlines(True), dst.splitlines(True), "a/" + rel, "b/" + rel))
open(out, "w").write("".join(diff))
print("wrote", out, len(diff), "lines")
