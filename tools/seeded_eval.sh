#!/bin/bash
# usage: tools/seeded_eval.sh <seeded-dir> [check ids...]     e.g. tools/seeded_eval.sh seeded/C10_a c10
# Applies <seeded-dir>/patch.diff to a scratch copy of /repo under /tmp, runs the demonstration (expected: fails with the change, passes on
# /repo) and the named checks' quick tier against the copy (expected: exit 1 + VIOLATION), then deletes the copy.
set -u
cd "$(dirname "$0")/.."
S="$(readlink -f "$1")"; shift
D=$(mktemp -d /tmp/seedeval_XXXX)
rsync -a --exclude .git --exclude docs --exclude examples --exclude _trash --exclude 'tests/data' /repo/ "$D"/
( cd "$D" && patch -p1 -s --no-backup-if-mismatch < "$S/patch.diff" ) || { echo "PATCH FAILED"; rm -rf "$D"; exit 3; }
if [ -f "$S/demo.py" ]; then
  ( cd /tmp && PYTHONPATH="$D" timeout 900 /venv/bin/python "$S/demo.py" > "$D.demo_mut.log" 2>&1 ); r1=$?
  ( cd /tmp && PYTHONPATH=/repo timeout 900 /venv/bin/python "$S/demo.py" > "$D.demo_ok.log" 2>&1 ); r0=$?
  echo "demo: with change exit=$r1 (expected !=0), on /repo exit=$r0 (expected 0)"
fi
for c in "$@"; do
  VERIF_REPO="$D" /venv/bin/python checks/$c.py --tier quick > "$D.$c.log" 2>&1; rc=$?
  echo "check $c: exit=$rc $(grep -m2 -E 'violation mechanism|INCONCLUSIVE|HELD' "$D.$c.log" | cut -c1-200 | tr '\n' ' ')"
done
rm -rf "$D" "$D".*.log
