#!/bin/bash
# usage: tools/run_all.sh quick|thorough [ids...]   - runs the checks one after the other, prints one line per check
TIER=${1:-quick}; shift
IDS=${@:-$(cat tools/ready.txt | tr 'A-Z' 'a-z' | sort -u)}
for c in $IDS; do
  s=$(date +%s)
  out=$(/venv/bin/python checks/$c.py --tier $TIER 2>&1); rc=$?
  e=$(date +%s)
  echo "$c tier=$TIER seed=${VERIF_SEED:-0} rc=$rc t=$((e-s))s :: $(echo "$out" | grep -E "VIOLATION|INCONCLUSIVE|HELD|KNOWN-FINDING" | cut -c1-160 | head -4 | tr '\n' ' ')"
done
